/-
  The physical flow network a `t2grid` describes (property C09), read off the heap model of
  `Model/Grid.lean`.  Blocks and connections are identified by object id (names may change).
-/
import PyTough.Model.GridInv
namespace Model.Grid
open Py

/-- what a block means physically: volume, rock type (by name) and centre -/
structure BlkPhys where
  volume : Rat
  rockName : Name
  centre : Option (List Rat)
  deriving DecidableEq, Repr

def blkPhys (w : World) (b : Nat) : BlkPhys := ⟨(w.bk b).volume, w.rname (w.bk b).rock, (w.bk b).centre⟩

/-- what a connection means physically, independent of the order in which its two blocks are
    written: each block with *its own* distance to the interface, the interface area, the
    permeability direction, and the gravity cosine oriented from the block with the lower id to
    the other one (so it still says which of the two is the upper block) -/
structure ConPhys where
  lo : Nat × Rat
  hi : Nat × Rat
  area : Rat
  direction : Int
  dircos : Option Rat
  deriving DecidableEq, Repr

def conSig (con : Con) : ConPhys :=
  if con.b0 ≤ con.b1 then ⟨(con.b0, con.d0), (con.b1, con.d1), con.area, con.direction, con.dircos⟩
  else ⟨(con.b1, con.d1), (con.b0, con.d0), con.area, con.direction, con.dircos.map (fun x => -x)⟩

def conPhys (w : World) (c : Nat) : ConPhys := conSig (w.cn c)

/-- two states describe the same physical network: the same block and connection objects (in any
    order), every block with the same volume, rock type and centre, every connection with the same
    oriented signature -/
structure PhysEq (w w' : World) : Prop where
  blocks : w'.blocklist.Perm w.blocklist
  connections : w'.connectionlist.Perm w.connectionlist
  blk : ∀ b, blkPhys w' b = blkPhys w b
  con : ∀ c, conPhys w' c = conPhys w c

/-- total volume of the grid's blocks -/
def totalVolume (w : World) : Rat := World.sumRat (w.blocklist.map fun b => (w.bk b).volume)

open World in
/-- the chain of connections MINC creates for one block: fracture → matrix 1 → … → innermost -/
def mincChain (args : MincArgs) (origVol : Rat) : Nat → Nat → Nat → List Rat → List Con
  | _, _, _, [] => []
  | m0, lastblk, base, _ :: r => mincCon args origVol (m0 + 1) lastblk base :: mincChain args origVol (m0 + 1) base (base + 1) r


open World in
/-- **What MINC leaves behind for one processed block** `b` of original volume `V`, in the final
    state `w'`: `row` (the block's row of the returned index array) holds the positions in the block
    list of `b` and of its new matrix blocks `base, base+1, …`; `b` has volume `V·f₀` and matrix level
    `k` has `V·f_k` (`f` the fractions normalised by their sum); the connections `cbase, cbase+1, …`
    are in the grid and form the chain `b → base → base+1 → …` with area `V·a[k]` and distances
    `(d[k], d[k+1])` (`mincChain`). -/
def MincGroup (args : MincArgs) (vf : List Rat) (N0 : Nat) (w' : World) (V : Rat) (b : Nat) (row : List Nat) : Prop :=
  ∃ base cbase pos0 p,
    row = pos0 :: List.range' p (vf.drop 1).length ∧
    w'.blocklist[pos0]? = some b ∧ (∀ k, k < (vf.drop 1).length → w'.blocklist[p + k]? = some (base + k)) ∧
    (w'.bk b).volume = V * vf.headD 0 ∧
    (∀ k (hk : k < (vf.drop 1).length), (w'.bk (base + k)).volume = V * (vf.drop 1)[k]) ∧
    (∀ k, k < (vf.drop 1).length → cbase + k ∈ w'.connectionlist) ∧
    (∀ k, k < (vf.drop 1).length → w'.cons[cbase + k]? = (mincChain args V 0 b base (vf.drop 1))[k]?) ∧
    N0 ≤ base ∧ base + (vf.drop 1).length ≤ w'.blks.length ∧ cbase + (vf.drop 1).length ≤ w'.cons.length


end Model.Grid
