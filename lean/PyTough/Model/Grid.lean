/-
  Model of the registry operations of `t2grids.t2grid` (and `mulgrids.fix_block_mapping`),
  transcribed statement by statement from /repo/t2grids.py.

  Python object identity matters here: the same `t2block` object sits in `grid.blocklist`,
  in `grid.block`, and in the `block` list of its connections, and is mutated in place
  (`rename_blocks`, `minc`); `add_*` on an existing name *replaces* the list element and the
  dictionary entry but leaves references held elsewhere on the old object.  So the model has
  an explicit heap (`rocks`, `blks`, `cons`: object id = position) and the grid's six public
  containers hold ids:

      rocktypelist / rocktype      list / dict name -> rocktype object
      blocklist    / block         list / dict name -> t2block object
      connectionlist / connection  list / dict (name, name) -> t2connection object

  A `t2block` carries its own `name`, a reference to its rocktype object and the set
  `connection_name`; a `t2connection` carries its two block references and the physical
  payload.  Exceptions keep the partially mutated state (`Except (Exc × World) World`),
  because Python leaves whatever was done before the `raise`.

  Mathlib-free: executed by `drv_c08` / `drv_c09`.
-/
import PyTough.Py.Str
namespace Model.Grid
open Py

abbrev Name := Str
abbrev CName := Name × Name

/-! ### Python containers -/

/-- insertion-ordered `dict` as an association list -/
abbrev Dict (κ α : Type) := List (κ × α)

/-- `d.get(k)` / `k in d` / `d[k]` -/
def dget {κ α} [DecidableEq κ] : Dict κ α → κ → Option α
  | [], _ => none
  | (k', v) :: r, k => if k' = k then some v else dget r k

/-- `d[k] = v` (an existing key keeps its position) -/
def dset {κ α} [DecidableEq κ] : Dict κ α → κ → α → Dict κ α
  | [], k, v => [(k, v)]
  | (k', v') :: r, k, v => if k' = k then (k', v) :: r else (k', v') :: dset r k v

/-- `del d[k]` (a Python dict never holds a key twice; all occurrences are dropped) -/
def ddel {κ α} [DecidableEq κ] (d : Dict κ α) (k : κ) : Dict κ α :=
  d.filter (fun p => decide (p.1 ≠ k))

/-- `i = l.index(x); l[i] = y` on a list of objects (`==` is identity); `none` = ValueError -/
def replaceFirst : List Nat → Nat → Nat → Option (List Nat)
  | [], _, _ => none
  | a :: r, x, y => if a = x then some (y :: r) else (replaceFirst r x y).map (a :: ·)

/-- `l.index(x)`; `none` = ValueError -/
def indexOf? : List Nat → Nat → Option Nat
  | [], _ => none
  | a :: r, x => if a = x then some 0 else (indexOf? r x).map (· + 1)

/-- `s.add(k)` on a set kept as a duplicate-free list -/
def sadd {α} [DecidableEq α] (s : List α) (k : α) : List α := if k ∈ s then s else s ++ [k]

/-! ### strings used by the grid code -/

/-- Python `str <= str` (code point order) -/
def strLe : Str → Str → Bool
  | [], _ => true
  | _ :: _, [] => false
  | a :: r, b :: s => if a.toNat < b.toNat then true else if b.toNat < a.toNat then false else strLe r s

def insertSorted (x : Str) : List Str → List Str
  | [] => [x]
  | y :: r => if strLe x y then x :: y :: r else y :: insertSorted x r

/-- `names.sort()` -/
def sortNames : List Str → List Str
  | [] => []
  | x :: r => insertSorted x (sortNames r)

/-- `name[i]` -/
def charAt (s : Str) (i : Nat) : Except Exc Char :=
  match s[i]? with
  | some c => .ok c
  | none => .error .indexError

/-- `mulgrids.fix_blockname`:
    `if name[2].isdigit() and name[4].isdigit() and name[3] == ' ': return '0'.join((name[0:3], name[4:5]))`
    (`and` short-circuits, so which index can raise depends on the characters) -/
def fixBlockname (name : Str) : Except Exc Str :=
  match charAt name 2 with
  | .error e => .error e
  | .ok c2 =>
    if !isDigit c2 then .ok name else
    match charAt name 4 with
    | .error e => .error e
    | .ok c4 =>
      if !isDigit c4 then .ok name else
      match charAt name 3 with
      | .error e => .error e
      | .ok c3 => if c3 = ' ' then .ok (slice name 0 3 ++ ['0'] ++ slice name 4 5) else .ok name

/-- first loop of `fix_block_mapping`:
    `for k, v in blockmap.items(): fixedk = fix_blockname(k); if k != fixedk: keys_to_fix[k] = fixedk;
     blockmap[k] = fix_blockname(v)`; `m` is the dict being mutated, `fixes` is `keys_to_fix` -/
def fixMapLoop1 : Dict Name Name → Dict Name Name → Dict Name Name → Except Exc (Dict Name Name × Dict Name Name)
  | [], m, fixes => .ok (m, fixes)
  | (k, v) :: r, m, fixes =>
    match fixBlockname k with
    | .error e => .error e
    | .ok fk =>
      match fixBlockname v with
      | .error e => .error e
      | .ok fv => fixMapLoop1 r (dset m k fv) (if k ≠ fk then dset fixes k fk else fixes)

/-- second loop: `for k,v in keys_to_fix.items(): item = blockmap[k]; del blockmap[k]; blockmap[v] = item` -/
def fixMapLoop2 : Dict Name Name → Dict Name Name → Except Exc (Dict Name Name)
  | m, [] => .ok m
  | m, (k, fk) :: r =>
    match dget m k with
    | none => .error .keyError
    | some item => fixMapLoop2 (dset (ddel m k) fk item) r

/-- `mulgrids.fix_block_mapping(blockmap)` (mutates the caller's dict; result = the dict afterwards) -/
def fixBlockMapping (m : Dict Name Name) : Except Exc (Dict Name Name) :=
  match fixMapLoop1 m m [] with
  | .error e => .error e
  | .ok (m1, fixes) => fixMapLoop2 m1 fixes

/-! ### objects -/

structure Rock where
  name : Name
  /-- stands for the physical parameters (copied by MINC's `duplicate_rock`) -/
  tag : Nat
  deriving DecidableEq, Repr, Inhabited

structure Blk where
  name : Name
  volume : Rat
  rock : Nat
  centre : Option (List Rat)
  /-- `connection_name`, a set of name pairs (duplicate-free list) -/
  conn : List CName
  deriving DecidableEq, Repr, Inhabited

structure Con where
  b0 : Nat
  b1 : Nat
  direction : Int
  d0 : Rat
  d1 : Rat
  area : Rat
  dircos : Option Rat
  nad1 : Option Int
  nad2 : Option Int
  deriving DecidableEq, Repr, Inhabited

structure World where
  rocks : List Rock
  blks : List Blk
  cons : List Con
  rocktypelist : List Nat
  rocktype : Dict Name Nat
  blocklist : List Nat
  block : Dict Name Nat
  connectionlist : List Nat
  connection : Dict CName Nat
  deriving Repr, Inhabited

def World.empty : World := ⟨[], [], [], [], [], [], [], [], []⟩

/-- outcome of a method call: the new state, or an exception together with the state it leaves -/
abbrev R := Except (Exc × World) World

namespace World

def rk (w : World) (r : Nat) : Rock := w.rocks.getD r default
def bk (w : World) (b : Nat) : Blk := w.blks.getD b default
def cn (w : World) (c : Nat) : Con := w.cons.getD c default
def bname (w : World) (b : Nat) : Name := (w.bk b).name
def rname (w : World) (r : Nat) : Name := (w.rk r).name
/-- `tuple([blk.name for blk in con.block])` -/
def ckey (w : World) (c : Nat) : CName := (w.bname (w.cn c).b0, w.bname (w.cn c).b1)

def setBlk (w : World) (b : Nat) (v : Blk) : World := { w with blks := w.blks.set b v }
def setCon (w : World) (c : Nat) (v : Con) : World := { w with cons := w.cons.set c v }
def setRock (w : World) (r : Nat) (v : Rock) : World := { w with rocks := w.rocks.set r v }

/-- object construction (`rocktype(...)`, `t2block(...)`, `t2connection(...)`) -/
def newRock (w : World) (v : Rock) : Nat × World := (w.rocks.length, { w with rocks := w.rocks ++ [v] })
def newBlk (w : World) (v : Blk) : Nat × World := (w.blks.length, { w with blks := w.blks ++ [v] })
def newCon (w : World) (v : Con) : Nat × World := (w.cons.length, { w with cons := w.cons ++ [v] })

/-! ### rock types -/

/-- `add_rocktype(newrocktype)` -/
def addRocktype (w : World) (r : Nat) : R :=
  let nm := w.rname r
  match dget w.rocktype nm with
  | some old =>
    match replaceFirst w.rocktypelist old r with
    | none => .error (.valueError, w)
    | some l => .ok { w with rocktypelist := l, rocktype := dset w.rocktype nm r }
  | none => .ok { w with rocktypelist := w.rocktypelist ++ [r], rocktype := dset w.rocktype nm r }

/-- `delete_rocktype(rocktypename)` -/
def deleteRocktype (w : World) (nm : Name) : R :=
  match dget w.rocktype nm with
  | none => .ok w
  | some rt =>
    let w1 := { w with rocktype := ddel w.rocktype nm }
    if rt ∈ w1.rocktypelist then .ok { w1 with rocktypelist := w1.rocktypelist.erase rt }
    else .error (.valueError, w1)

/-- `rename_rocktype(rockname, newrockname)` -/
def renameRocktype (w : World) (a b : Name) : R :=
  match dget w.rocktype a with
  | none => .error (.generic, w)
  | some rock =>
    if (dget w.rocktype b).isSome then .error (.generic, w)
    else
      let w1 := { w with rocktype := ddel w.rocktype a }
      let w2 := w1.setRock rock { w1.rk rock with name := b }
      .ok { w2 with rocktype := dset w2.rocktype b rock }

/-- `rocktype_frequency(rockname)`: counts block rock *names* -/
def rocktypeFrequency (w : World) (nm : Name) : Nat :=
  (w.blocklist.filter fun b => decide (w.rname (w.bk b).rock = nm)).length

def deleteRocktypes : World → List Name → R
  | w, [] => .ok w
  | w, nm :: r =>
    match deleteRocktype w nm with
    | .error e => .error e
    | .ok w1 => deleteRocktypes w1 r

/-- `clean_rocktypes()` -/
def cleanRocktypes (w : World) : R :=
  let unused := (w.rocktypelist.filter fun rt => rocktypeFrequency w (w.rname rt) == 0).map w.rname
  deleteRocktypes w unused

def lookupAll {κ} [DecidableEq κ] (d : Dict κ Nat) : List κ → Option (List Nat)
  | [] => some []
  | k :: r =>
    match dget d k with
    | none => none
    | some v => (lookupAll d r).map (v :: ·)

/-- `sort_rocktypes()` -/
def sortRocktypes (w : World) : R :=
  match lookupAll w.rocktype (sortNames (w.rocktypelist.map w.rname)) with
  | none => .error (.keyError, w)
  | some l => .ok { w with rocktypelist := l }

/-! ### blocks and connections -/

/-- `add_block(newblock)` -/
def addBlock (w : World) (b : Nat) : R :=
  let nm := w.bname b
  match dget w.block nm with
  | some old =>
    match replaceFirst w.blocklist old b with
    | none => .error (.valueError, w)
    | some l => .ok { w with blocklist := l, block := dset w.block nm b }
  | none => .ok { w with blocklist := w.blocklist ++ [b], block := dset w.block nm b }

/-- `block.connection_name.remove(k)`; `none` = KeyError -/
def connRemove (w : World) (b : Nat) (k : CName) : Option World :=
  let blk := w.bk b
  if k ∈ blk.conn then some (w.setBlk b { blk with conn := blk.conn.erase k }) else none

/-- `block.connection_name.add(k)` -/
def connAdd (w : World) (b : Nat) (k : CName) : World :=
  let blk := w.bk b
  w.setBlk b { blk with conn := sadd blk.conn k }

/-- `delete_connection(connectionname)` -/
def deleteConnection (w : World) (k : CName) : R :=
  match dget w.connection k with
  | none => .ok w
  | some c =>
    let con := w.cn c
    match connRemove w con.b0 k with
    | none => .error (.keyError, w)
    | some w1 =>
      match connRemove w1 con.b1 k with
      | none => .error (.keyError, w1)
      | some w2 =>
        let w3 := { w2 with connection := ddel w2.connection k }
        if c ∈ w3.connectionlist then .ok { w3 with connectionlist := w3.connectionlist.erase c }
        else .error (.valueError, w3)

def deleteConnections : World → List CName → R
  | w, [] => .ok w
  | w, k :: r =>
    match deleteConnection w k with
    | .error e => .error e
    | .ok w1 => deleteConnections w1 r

/-- `delete_block(blockname)`; the loop runs over a *copy* of the block's `connection_name` -/
def deleteBlock (w : World) (nm : Name) : R :=
  match dget w.block nm with
  | none => .ok w
  | some b =>
    match deleteConnections w (w.bk b).conn with
    | .error e => .error e
    | .ok w1 =>
      let w2 := { w1 with block := ddel w1.block nm }
      .ok (if b ∈ w2.blocklist then { w2 with blocklist := w2.blocklist.erase b } else w2)

/-- `block_index(blockname)`: `ok none` is Python `None` -/
def blockIndex (w : World) (nm : Name) : Except Exc (Option Nat) :=
  match dget w.block nm with
  | none => .ok none
  | some b =>
    match indexOf? w.blocklist b with
    | none => .error .valueError
    | some i => .ok (some i)

/-- `connection_index(connectionnames)` -/
def connectionIndex (w : World) (k : CName) : Except Exc (Option Nat) :=
  match dget w.connection k with
  | none => .ok none
  | some c =>
    match indexOf? w.connectionlist c with
    | none => .error .valueError
    | some i => .ok (some i)

/-- `demote_block(blockname)` for a list of names:
    `i = self.block_index(name); self.blocklist.append(self.blocklist.pop(i))`
    (`pop(None)` is a TypeError; `pop(index(x))` removes the first `x`) -/
def demoteBlock : World → List Name → R
  | w, [] => .ok w
  | w, nm :: r =>
    match dget w.block nm with
    | none => .error (.typeError, w)
    | some b =>
      if b ∈ w.blocklist then demoteBlock { w with blocklist := w.blocklist.erase b ++ [b] } r
      else .error (.valueError, w)

/-- `add_connection(newconnection)` -/
def addConnection (w : World) (c : Nat) : R :=
  let con := w.cn c
  let k := w.ckey c
  let placed : Option World :=
    match dget w.connection k with
    | some old =>
      match replaceFirst w.connectionlist old c with
      | none => none
      | some l => some { w with connectionlist := l }
    | none => some { w with connectionlist := w.connectionlist ++ [c] }
  match placed with
  | none => .error (.valueError, w)
  | some w1 =>
    let w2 := { w1 with connection := dset w1.connection k c }
    .ok ((w2.connAdd con.b0 k).connAdd con.b1 k)

/-! ### reorder -/

/-- `blk.connection_name.remove(orig); blk.connection_name.add(names)`; `none` = KeyError -/
def connReplace (w : World) (b : Nat) (orig names : CName) : Option World :=
  match connRemove w b orig with
  | none => none
  | some w1 => some (w1.connAdd b names)

/-- `con.block = con.block[::-1]; con.distance = con.distance[::-1];
    if con.dircos is not None: con.dircos = -con.dircos; con.nad1, con.nad2 = con.nad2, con.nad1` -/
def flipCon (con : Con) : Con :=
  { con with b0 := con.b1, b1 := con.b0, d0 := con.d1, d1 := con.d0,
             dircos := con.dircos.map (fun x => -x), nad1 := con.nad2, nad2 := con.nad1 }

/-- the reversal branch of `reorder` for connection `c` found under `orig`, wanted under `names` -/
def flipConnection (w : World) (c : Nat) (orig names : CName) : R :=
  let con' := flipCon (w.cn c)
  let w1 := w.setCon c con'
  -- for blk in con.block: blk.connection_name.remove(orignames); blk.connection_name.add(names)
  match connReplace w1 con'.b0 orig names with
  | none => .error (.keyError, w1)
  | some w2 =>
    match connReplace w2 con'.b1 orig names with
    | none => .error (.keyError, w2)
    | some w3 => .ok { w3 with connection := dset (ddel w3.connection orig) names c }

/-- the loop over `connection_names`; `acc` is the local `connectionlist` -/
def reorderConnections : World → List CName → List Nat → Except (Exc × World) (World × List Nat)
  | w, [], acc => .ok (w, acc)
  | w, names :: r, acc =>
    match dget w.connection names with
    | some c => reorderConnections w r (acc ++ [c])
    | none =>
      let orig := (names.2, names.1)
      match dget w.connection orig with
      | some c =>
        match flipConnection w c orig names with
        | .error e => .error e
        | .ok w1 => reorderConnections w1 r (acc ++ [c])
      | none => .error (.generic, w)

/-- `reorder(block_names, connection_names)`; an empty list is falsy (like `None`) -/
def reorder (w : World) (bs : List Name) (cs : List CName) : R :=
  let w1r : R :=
    if bs.isEmpty then .ok w
    else match lookupAll w.block bs with
      | none => .error (.keyError, w)
      | some l => .ok { w with blocklist := l }
  match w1r with
  | .error e => .error e
  | .ok w1 =>
    if cs.isEmpty then .ok w1
    else match reorderConnections w1 cs [] with
      | .error e => .error e
      | .ok (w2, acc) => .ok { w2 with connectionlist := acc }

/-! ### rename_blocks -/

def mapName (m : Dict Name Name) (n : Name) : Name :=
  match dget m n with
  | some n' => n'
  | none => n

/-- the new `connection_name` set of one block -/
def mapConn (m : Dict Name Name) : List CName → List CName
  | [] => []
  | k :: r => sadd (mapConn m r) (mapName m k.1, mapName m k.2)

/-- `for blk in self.blocklist:` rename and rewrite `connection_name` -/
def renameLoop (m : Dict Name Name) : World → List Nat → World
  | w, [] => w
  | w, b :: r =>
    let blk := w.bk b
    renameLoop m (w.setBlk b { blk with name := mapName m blk.name, conn := mapConn m blk.conn }) r

/-- `self.block = {}; for blk in self.blocklist: self.block[blk.name] = blk` -/
def rebuildBlock (w : World) : World :=
  { w with block := w.blocklist.foldl (fun d b => dset d (w.bname b) b) [] }

def rebuildConnection (w : World) : World :=
  { w with connection := w.connectionlist.foldl (fun d c => dset d (w.ckey c) c) [] }

/-- `rename_blocks(blockmap, fix_blocknames)`.  `fix_block_mapping` mutates `blockmap` in place
    and its return value (`None`) is ignored, so the loops use the fixed dict. -/
def renameBlocks (w : World) (m : Dict Name Name) (fix : Bool) : R :=
  let mr : Except Exc (Dict Name Name) := if fix then fixBlockMapping m else .ok m
  match mr with
  | .error e => .error (e, w)
  | .ok m1 => .ok (rebuildConnection (rebuildBlock (renameLoop m1 w w.blocklist)))

/-! ### MINC -/

/-- MINC parameters: raw volume fractions; `a`, `d` are the interface-area densities and nodal
    distances (computed in the real code by `scipy.optimize.bisect` on the proximity function —
    parameters of the model); `blocks` the selection (empty = all) -/
structure MincArgs where
  fracs : List Rat
  a : List Rat
  d : List Rat
  blocks : List Name
  atmosVolume : Rat
  deriving Repr

def sumRat (l : List Rat) : Rat := l.foldl (· + ·) 0

/-- `volume_fractions /= np.sum(volume_fractions)` -/
def normFracs (l : List Rat) : List Rat := l.map (· / sumRat l)

/-- `default_matrix_blockname`: `str(level) + blkname[len(str(level)):]` -/
def matrixBlockname (blkname : Name) (level : Nat) : Name :=
  let ls := (toString level).toList
  ls ++ blkname.drop ls.length

/-- `default_minc_rockname` -/
def mincRockname (rockname : Name) (level : Nat) : Name :=
  if level = 0 then rockname else 'X' :: rockname.drop 1

/-- `duplicate_rock(newrockname, r)` -/
def duplicateRock (w : World) (nm : Name) (r : Nat) : R :=
  if (dget w.rocktype nm).isSome then .ok w
  else
    let (id, w1) := w.newRock { name := nm, tag := (w.rk r).tag }
    addRocktype w1 id

/-- `t2connection([lastblk, mincblk], 1, [d[m - 1], d[m]], original_vol * a[m - 1], None)` -/
def mincCon (args : MincArgs) (origVol : Rat) (m lastblk mb : Nat) : Con :=
  { b0 := lastblk, b1 := mb, direction := 1, d0 := args.d.getD (m - 1) 0, d1 := args.d.getD m 0,
    area := origVol * args.a.getD (m - 1) 0, dircos := none, nad1 := none, nad2 := none }

/-- the loop `for vf in volume_fractions[1:]` for one block; `m` is the level just done,
    returns the world, the last block and the block-list indices of the new blocks -/
def mincLevels (args : MincArgs) (blkname : Name) (origVol : Rat) (origRock : Nat) (centre : Option (List Rat)) :
    World → List Rat → Nat → Nat → Nat → List Nat → Except (Exc × World) (World × Nat × List Nat)
  | w, [], _, _, iblk, idx => .ok (w, iblk, idx)
  | w, vf :: r, m0, lastblk, iblk, idx =>
    let m := m0 + 1
    let mrockname := mincRockname (w.rname origRock) m
    match duplicateRock w mrockname origRock with
    | .error e => .error e
    | .ok w1 =>
      let mblockname := matrixBlockname blkname m
      if (dget w1.block mblockname).isSome then .error (.generic, w1)
      else
        match dget w1.rocktype mrockname with
        | none => .error (.keyError, w1)
        | some mrock =>
          let (mb, w2) := w1.newBlk { name := mblockname, volume := origVol * vf, rock := mrock, centre := centre, conn := [] }
          match addBlock w2 mb with
          | .error e => .error e
          | .ok w3 =>
            let (c, w4) := w3.newCon (mincCon args origVol m lastblk mb)
            match addConnection w4 c with
            | .error e => .error e
            | .ok w5 => mincLevels args blkname origVol origRock centre w5 r m mb (iblk + 1) (idx ++ [iblk + 1])

/-- `blkidict = dict([(blk.name, i) for i, blk in enumerate(self.blocklist)])` -/
def blockIndexDict (w : World) : Dict Name Nat :=
  (w.blocklist.zipIdx).foldl (fun d p => dset d (w.bname p.1) p.2) []

/-- the loop `for blk_index, blkname in enumerate(blocks)`; the result lists, per selected block,
    the column of `blockindex` (zeros for a block that is skipped) -/
def mincBlocks (args : MincArgs) (vf : List Rat) (blkidict : Dict Name Nat) :
    World → List Name → Nat → List (List Nat) → Except (Exc × World) (World × List (List Nat))
  | w, [], _, cols => .ok (w, cols)
  | w, blkname :: r, iblk, cols =>
    match dget w.block blkname with
    | none => .error (.keyError, w)
    | some b =>
      let blk := w.bk b
      let origVol := blk.volume
      if 0 < origVol ∧ origVol < args.atmosVolume then
        let w1 := w.setBlk b { blk with volume := blk.volume * vf.headD 0 }
        match dget blkidict blkname with
        | none => .error (.keyError, w1)
        | some i0 =>
          let origRock := blk.rock
          match mincLevels args blkname origVol origRock blk.centre w1 (vf.drop 1) 0 b iblk [] with
          | .error e => .error e
          | .ok (w2, iblk2, idx) =>
            let frock := mincRockname (w2.rname origRock) 0
            match duplicateRock w2 frock origRock with
            | .error e => .error e
            | .ok w3 =>
              match dget w3.rocktype frock with
              | none => .error (.keyError, w3)
              | some fr =>
                let w4 := w3.setBlk b { w3.bk b with rock := fr }
                mincBlocks args vf blkidict w4 r iblk2 (cols ++ [i0 :: idx])
      else mincBlocks args vf blkidict w r iblk (cols ++ [List.replicate vf.length 0])

/-- `minc(volume_fractions, …, blocks = …)`: registry part and volumes; returns the world and the
    transposed `blockindex` array -/
def minc (w : World) (args : MincArgs) : Except (Exc × World) (World × List (List Nat)) :=
  if args.fracs.length < 2 then .error (.generic, w)
  else
    let vf := normFracs args.fracs
    let blocks := if args.blocks.isEmpty then w.blocklist.map w.bname else args.blocks
    -- `isinstance(blocks[0], t2block)` raises IndexError on an empty grid
    if blocks.isEmpty then .error (.indexError, w)
    else mincBlocks args vf (blockIndexDict w) w blocks (w.blocklist.length - 1) []

/-! ### grid addition and embedding -/

/-- the six public containers of a `t2grid` object (objects live in the shared heap) -/
structure Grid where
  rocktypelist : List Nat
  rocktype : Dict Name Nat
  blocklist : List Nat
  block : Dict Name Nat
  connectionlist : List Nat
  connection : Dict CName Nat
  deriving Repr, Inhabited

def grid (w : World) : Grid := ⟨w.rocktypelist, w.rocktype, w.blocklist, w.block, w.connectionlist, w.connection⟩
def withGrid (w : World) (g : Grid) : World :=
  { w with rocktypelist := g.rocktypelist, rocktype := g.rocktype, blocklist := g.blocklist, block := g.block,
           connectionlist := g.connectionlist, connection := g.connection }

def foldR (f : World → Nat → R) : World → List Nat → R
  | w, [] => .ok w
  | w, x :: r =>
    match f w x with
    | .error e => .error e
    | .ok w1 => foldR f w1 r

/-- one round of `__add__`: `for rt in grid.rocktypelist: result.add_rocktype(rt)` … -/
def addFrom (w : World) (g : Grid) : R :=
  match foldR addRocktype w g.rocktypelist with
  | .error e => .error e
  | .ok w1 =>
    match foldR addBlock w1 g.blocklist with
    | .error e => .error e
    | .ok w2 => foldR addConnection w2 g.connectionlist

/-- `self + other`: a new grid sharing the operands' objects; the world's current grid becomes the result -/
def addGrids (w : World) (g1 g2 : Grid) : R :=
  match addFrom (w.withGrid ⟨[], [], [], [], [], []⟩) g1 with
  | .error e => .error e
  | .ok w1 => addFrom w1 g2

/-- `self.embed(subgrid, connection)`; `ok (w, false)` is the `None` result (error message printed) -/
def embed (w : World) (sub : Grid) (c : Nat) : Except (Exc × World) (World × Bool) :=
  let subvol := sumRat (sub.blocklist.map fun b => (w.bk b).volume)
  let host := (w.cn c).b0
  if subvol < (w.bk host).volume then
    let dup := (w.blocklist.map w.bname).filter fun n => n ∈ sub.blocklist.map w.bname
    if dup.isEmpty then
      match addGrids w w.grid sub with
      | .error e => .error e
      | .ok w1 =>
        -- connection.block = [result.block[blk.name] for blk in connection.block]
        match dget w1.block (w1.bname (w1.cn c).b0), dget w1.block (w1.bname (w1.cn c).b1) with
        | some x0, some x1 =>
          let w2 := w1.setCon c { w1.cn c with b0 := x0, b1 := x1 }
          match addConnection w2 c with
          | .error e => .error e
          | .ok w3 =>
            -- result.block[hostblock.name].volume -= subvol
            match dget w3.block (w3.bname host) with
            | none => .error (.keyError, w3)
            | some hb => .ok (w3.setBlk hb { w3.bk hb with volume := (w3.bk hb).volume - subvol }, true)
        | _, _ => .error (.keyError, w1)
    else .ok (w, false)
  else .ok (w, false)

end World
end Model.Grid

/-! ### the edit alphabet: one public call per operation -/
namespace Model.Grid
open Py

/-- physical payload of a `t2connection(...)` constructor call -/
structure ConPay where
  direction : Int
  d0 : Rat
  d1 : Rat
  area : Rat
  dircos : Option Rat
  nad1 : Option Int
  nad2 : Option Int
  deriving Repr, Inhabited

/-- recipe for a second grid built with the public API from fresh objects:
    rock types (name, tag); blocks (name, rock type name, volume, centre);
    connections between `blocklist[i]` and `blocklist[j]` -/
structure GridSpec where
  rocks : List (Name × Nat)
  blocks : List (Name × Name × Rat × Option (List Rat))
  cons : List (Nat × Nat × ConPay)
  deriving Repr, Inhabited

inductive Op where
  /-- `grid.add_rocktype(rocktype(name = nm, density = tag))` -/
  | addRocktype (nm : Name) (tag : Nat)
  | deleteRocktype (nm : Name)
  | renameRocktype (a b : Name)
  | cleanRocktypes
  | sortRocktypes
  /-- `grid.add_block(t2block(nm, vol, rt, centre))` with `rt = grid.rocktype[rock]` when that name
      is registered, else a fresh unregistered `rocktype(name = rock)` -/
  | addBlock (nm rock : Name) (vol : Rat) (centre : Option (List Rat))
  | deleteBlock (nm : Name)
  | demoteBlock (nms : List Name)
  /-- `grid.add_connection(t2connection([b0, b1], …))` with `bi = grid.block[ni]` when that name is
      in the grid, else a fresh `t2block(ni)` -/
  | addConnection (n0 n1 : Name) (p : ConPay)
  | deleteConnection (n0 n1 : Name)
  | reorder (bs : List Name) (cs : List CName)
  | renameBlocks (m : Dict Name Name) (fix : Bool)
  | minc (args : World.MincArgs)
  /-- `grid = grid + other` (`left`) or `other + grid`, `other` built from the spec -/
  | addGrid (spec : GridSpec) (left : Bool)
  /-- `res = grid.embed(sub, t2connection([host, subblock], …)); if res is not None: grid = res` -/
  | embed (spec : GridSpec) (host sub : Name) (p : ConPay)
  /-- `grid.add_block(t2block(nm, vol, rocktype(name = rock), centre))`: always a *fresh* rocktype
      object, even when the grid registers one under that name (e.g. the constructor default) -/
  | addBlockFresh (nm rock : Name) (vol : Rat) (centre : Option (List Rat))
  /-- `grid.add_block(b)` for the most recently created block object currently named `nm` that is
      not in the grid (a block deleted earlier, or one of a discarded second grid); no such object: nothing -/
  | readdBlock (nm : Name)
  /-- the same for a rocktype object -/
  | readdRocktype (nm : Name)
  /-- the same for a connection object whose blocks are currently named `(n0, n1)` -/
  | readdConnection (n0 n1 : Name)
  /-- `grid.add_block(grid.block[nm])`: the same object a second time -/
  | againBlock (nm : Name)
  /-- `grid.embed(sub, t2connection([t2block(host, hostvol), subblock], …))`: the connection's host
      block is a standalone object that only carries the *name* of a block of the grid (as a block of
      a copy of the grid, or of the grid before it was written and re-read, would) -/
  | embedStandalone (spec : GridSpec) (host sub : Name) (p : ConPay) (hostvol : Rat)
  deriving Repr, Inhabited

/-- what a call leaves behind -/
structure Out where
  w : World
  exc : Option Exc := none
  /-- `minc`: the returned `blockindex`, one row per selected block -/
  ret : List (List Nat) := []
  /-- `embed`: the result was not `None` -/
  flag : Bool := true
  deriving Repr, Inhabited

def Out.ofR : R → Out
  | .ok w => { w := w }
  | .error (e, w) => { w := w, exc := some e }

namespace World

def mkCon (b0 b1 : Nat) (p : ConPay) : Con :=
  { b0 := b0, b1 := b1, direction := p.direction, d0 := p.d0, d1 := p.d1, area := p.area,
    dircos := p.dircos, nad1 := p.nad1, nad2 := p.nad2 }

/-- `t2block(nm)` with all defaults: volume 1, a fresh unregistered `rocktype()` named `dfalt` -/
def defaultBlk (w : World) (nm : Name) : Nat × World :=
  let (r, w1) := w.newRock { name := ['d','f','a','l','t'], tag := 0 }
  w1.newBlk { name := nm, volume := 1, rock := r, centre := none, conn := [] }

/-- `grid.block[nm] if nm in grid.block else t2block(nm)` -/
def blockOrFresh (w : World) (nm : Name) : Nat × World :=
  match dget w.block nm with
  | some b => (b, w)
  | none => w.defaultBlk nm

/-- `grid.add_rocktype(rocktype(name = nm, density = tag))` -/
def stepAddRocktype (w : World) (nm : Name) (tag : Nat) : Out :=
  let (r, w1) := w.newRock { name := nm, tag := tag }
  .ofR (addRocktype w1 r)

/-- `grid.add_block(t2block(nm, vol, rt, centre))` -/
def stepAddBlock (w : World) (nm rock : Name) (vol : Rat) (centre : Option (List Rat)) : Out :=
  let (rt, w1) := match dget w.rocktype rock with
    | some rt => (rt, w)
    | none => w.newRock { name := rock, tag := 0 }
  let (b, w2) := w1.newBlk { name := nm, volume := vol, rock := rt, centre := centre, conn := [] }
  .ofR (addBlock w2 b)

/-- `grid.add_connection(t2connection([b0, b1], …))` -/
def stepAddConnection (w : World) (n0 n1 : Name) (p : ConPay) : Out :=
  let (b0, w1) := w.blockOrFresh n0
  let (b1, w2) := w1.blockOrFresh n1
  let (c, w3) := w2.newCon (mkCon b0 b1 p)
  .ofR (addConnection w3 c)

/-- the three constructor-and-add calls a grid is built with -/
def stepBasic (w : World) : Op → Out
  | .addRocktype nm tag => stepAddRocktype w nm tag
  | .addBlock nm rock vol centre => stepAddBlock w nm rock vol centre
  | .addConnection n0 n1 p => stepAddConnection w n0 n1 p
  | _ => { w := w }

def runBasic : World → List Op → World
  | w, [] => w
  | w, op :: r => runBasic (stepBasic w op).w r

/-- the calls that build the second grid from its recipe (connections between the blocks named
    by `blocks[i]`, `blocks[j]`) -/
def specOps (s : GridSpec) : List Op :=
  s.rocks.map (fun r => Op.addRocktype r.1 r.2) ++
  s.blocks.map (fun b => Op.addBlock b.1 b.2.1 b.2.2.1 b.2.2.2) ++
  s.cons.map (fun c => Op.addConnection (s.blocks.getD c.1 default).1 (s.blocks.getD c.2.1 default).1 c.2.2)

/-- the most recently created object (largest id below `n`) that is not in `l` and satisfies `p` -/
def findOutside (l : List Nat) (n : Nat) (p : Nat → Bool) : Option Nat :=
  (List.range n).reverse.find? fun x => !(l.contains x) && p x

def outsideBlock (w : World) (nm : Name) : Option Nat :=
  findOutside w.blocklist w.blks.length fun b => w.bname b == nm
def outsideRock (w : World) (nm : Name) : Option Nat :=
  findOutside w.rocktypelist w.rocks.length fun r => w.rname r == nm
def outsideCon (w : World) (k : CName) : Option Nat :=
  findOutside w.connectionlist w.cons.length fun c => w.ckey c == k

/-- builds the second grid with the public API from the empty grid, in the shared heap; the
    current grid is left alone.  Returns the world (heap grown, current grid as before) and the new grid. -/
def buildSpec (w : World) (s : GridSpec) : World × Grid :=
  let w' := runBasic (w.withGrid ⟨[], [], [], [], [], []⟩) (specOps s)
  (w'.withGrid w.grid, w'.grid)

end World

/-- the operations that hand an already existing object to `add_*` again -/
def stepReuse (w : World) : Op → Out
  | .addBlockFresh nm rock vol centre =>
    let (rt, w1) := w.newRock { name := rock, tag := 0 }
    let (b, w2) := w1.newBlk { name := nm, volume := vol, rock := rt, centre := centre, conn := [] }
    .ofR (World.addBlock w2 b)
  | .readdBlock nm =>
    match World.outsideBlock w nm with
    | none => { w := w }
    | some b => .ofR (World.addBlock w b)
  | .readdRocktype nm =>
    match World.outsideRock w nm with
    | none => { w := w }
    | some r => .ofR (World.addRocktype w r)
  | .readdConnection n0 n1 =>
    match World.outsideCon w (n0, n1) with
    | none => { w := w }
    | some c => .ofR (World.addConnection w c)
  | .againBlock nm =>
    match dget w.block nm with
    | none => { w := w }
    | some b => .ofR (World.addBlock w b)
  | _ => { w := w }

open World in
def step (w : World) : Op → Out
  | .addRocktype nm tag => stepAddRocktype w nm tag
  | .deleteRocktype nm => .ofR (deleteRocktype w nm)
  | .renameRocktype a b => .ofR (renameRocktype w a b)
  | .cleanRocktypes => .ofR (cleanRocktypes w)
  | .sortRocktypes => .ofR (sortRocktypes w)
  | .addBlock nm rock vol centre => stepAddBlock w nm rock vol centre
  | .deleteBlock nm => .ofR (deleteBlock w nm)
  | .demoteBlock nms => .ofR (demoteBlock w nms)
  | .addConnection n0 n1 p => stepAddConnection w n0 n1 p
  | .deleteConnection n0 n1 => .ofR (deleteConnection w (n0, n1))
  | .reorder bs cs => .ofR (reorder w bs cs)
  | .renameBlocks m fix => .ofR (renameBlocks w m fix)
  | .minc args =>
    match minc w args with
    | .ok (w1, cols) => { w := w1, ret := cols }
    | .error (e, w1) => { w := w1, exc := some e }
  | .addGrid spec left =>
    let (w1, other) := buildSpec w spec
    -- `grid = grid + other`: when `__add__` raises, the assignment does not happen
    match (if left then addGrids w1 w1.grid other else addGrids w1 other w1.grid) with
    | .ok w2 => { w := w2 }
    | .error (e, w2) => { w := w2.withGrid w1.grid, exc := some e }
  | .embed spec host sub p =>
    let (w1, other) := buildSpec w spec
    (
      let (hb, w2) := w1.blockOrFresh host
      let (sb, w3) := match dget other.block sub with
        | some b => (b, w2)
        | none => w2.defaultBlk sub
      let (c, w4) := w3.newCon (mkCon hb sb p)
      match embed w4 other c with
      | .ok (w5, fl) => { w := w5, flag := fl }
      | .error (e, w5) => { w := w5.withGrid w4.grid, exc := some e })
  | .embedStandalone spec host sub p hostvol =>
    let (w1, other) := buildSpec w spec
    (
      let (r, w2) := w1.newRock { name := ['d','f','a','l','t'], tag := 0 }
      let (hb, w3) := w2.newBlk { name := host, volume := hostvol, rock := r, centre := none, conn := [] }
      let (sb, w4) := match dget other.block sub with
        | some b => (b, w3)
        | none => w3.defaultBlk sub
      let (c, w5) := w4.newCon (mkCon hb sb p)
      match embed w5 other c with
      | .ok (w6, fl) => { w := w6, flag := fl }
      | .error (e, w6) => { w := w6.withGrid w5.grid, exc := some e })
  | .addBlockFresh nm rock vol centre => stepReuse w (.addBlockFresh nm rock vol centre)
  | .readdBlock nm => stepReuse w (.readdBlock nm)
  | .readdRocktype nm => stepReuse w (.readdRocktype nm)
  | .readdConnection n0 n1 => stepReuse w (.readdConnection n0 n1)
  | .againBlock nm => stepReuse w (.againBlock nm)

/-- the state after a whole history (exceptions are swallowed by the caller, as a script with
    `try/except` around each call would) -/
def run : World → List Op → World
  | w, [] => w
  | w, op :: r => run (step w op).w r

end Model.Grid
