/-
  Model of the flavour conversion of `t2data` (t2data.py):

    get_type / set_type, insert_section / delete_section / section_insertion_index /
    get_present_sections / update_sections, add_generator / delete_generator / generator_index,
    convert_mulkom_heat_conductivity, convert_AUTOUGH2_parameters_to_TOUGH2,
    convert_TOUGH2_parameters_to_AUTOUGH2, convert_AUTOUGH2_generators_to_TOUGH2,
    convert_short_to_history, convert_history_to_short, convert_to_TOUGH2, convert_to_AUTOUGH2,
    and the name-line level of write/read of FOFT, COFT, GOFT.

  The data object is restricted to what these functions read or write.  Python objects whose
  identity matters (generators) carry an explicit `id`; items of the short-output and history
  lists are tagged by their Python class, because `convert_history_to_short` filters with
  `isinstance`.  Tables (section order, generator type lists, LINEQ types) come from
  `Gen/ConvertTables.lean`, regenerated from /repo on every run.

  A function in which Python can raise half way returns the state reached *and* the exception
  (`T2 × Option Exc`), because the real object keeps its partial mutations.
-/
import PyTough.Py.Num
import PyTough.Gen.ConvertTables
namespace Model.Convert
open Py
open Gen.ConvertTables

/-! ### Python values and dicts -/

/-- values found in the `multi`, `lineq`, `solver` dicts (floats as exact rationals) -/
inductive PyV where
  | none
  | int (i : Int)
  | num (q : Rat)
  | str (s : Str)
  deriving DecidableEq, Repr, Inhabited

/-- insertion-ordered dict with string keys -/
abbrev Dict := List (Str × PyV)

def Dict.has (d : Dict) (k : Str) : Bool := d.any (·.1 == k)
def Dict.get? (d : Dict) (k : Str) : Option PyV := d.lookup k
/-- `d[k] = v`: an existing key keeps its position -/
def Dict.set : Dict → Str → PyV → Dict
  | [], k, v => [(k, v)]
  | (k', v') :: r, k, v => if k' == k then (k', v) :: r else (k', v') :: Dict.set r k v
/-- `del d[k]` (the callers test `k in d` first) -/
def Dict.del (d : Dict) (k : Str) : Dict := d.filter (·.1 != k)

/-! ### the data object -/

structure Gener where
  id : Nat            -- object identity
  block : Str
  name : Str
  type : Str
  payload : Nat       -- everything else a generator carries (never touched by conversion)
  deriving DecidableEq, Repr, Inhabited

structure Rock where
  name : Str
  porosity : Rat
  conductivity : Rat
  payload : Nat       -- density, permeability, specific heat, ... (never touched)
  deriving DecidableEq, Repr, Inhabited

/-- an item of a short-output / history list, tagged by its Python class -/
inductive Item where
  | blk (name : Str)        -- t2block
  | con (a b : Str)         -- t2connection
  | gen (id : Nat) (block name : Str)   -- t2generator (object identity, block, name)
  | str (s : Str)           -- bare name
  | tup (a b : Str)         -- bare pair of names
  deriving DecidableEq, Repr, Inhabited

/-- the `short_output` dict: a key is present iff its field is `some` -/
structure Short where
  freq : Option PyV := none
  block : Option (List Item) := none
  con : Option (List Item) := none
  gen : Option (List Item) := none
  deriving DecidableEq, Repr, Inhabited

def Short.truthy (s : Short) : Bool := s.freq.isSome || s.block.isSome || s.con.isSome || s.gen.isSome

structure T2 where
  filename : Str := []
  simulator : Str := []
  sections : List Str := []                  -- `_sections`
  multi : Dict := []
  lineq : Dict := []
  solver : Dict := []
  option : List Int := List.replicate 25 0   -- parameter['option'] (index 0 unused)
  rocks : List Rock := []                    -- grid.rocktypelist
  gens : List Gener := []                    -- generatorlist
  gendict : List ((Str × Str) × Nat) := []   -- generator: (block, name) ↦ object id
  short : Short := {}
  histBlock : List Item := []
  histCon : List Item := []
  histGen : List Item := []
  other : List Str := []                     -- keywords of the remaining sections whose data is present
  blocks : List Str := []                    -- grid block names (conversion never looks at them)
  deriving DecidableEq, Repr, Inhabited

def kw (s : String) : Str := s.toList
def SIMUL : Str := ['S','I','M','U','L']
def ROCKS : Str := ['R','O','C','K','S']
def PARAM : Str := ['P','A','R','A','M']
def LINEQ : Str := ['L','I','N','E','Q']
def SOLVR : Str := ['S','O','L','V','R']
def MULTI : Str := ['M','U','L','T','I']
def ELEME : Str := ['E','L','E','M','E']
def CONNE : Str := ['C','O','N','N','E']
def GENER : Str := ['G','E','N','E','R']
def SHORT : Str := ['S','H','O','R','T']
def FOFT : Str := ['F','O','F','T']
def COFT : Str := ['C','O','F','T']
def GOFT : Str := ['G','O','F','T']
def AUTOUGH2 : Str := ['A','U','T','O','U','G','H','2']
def TOUGH2 : Str := ['T','O','U','G','H','2']
def kEos : Str := ['e','o','s']
def kNumInc : Str := ['n','u','m','_','i','n','c']
def kType : Str := ['t','y','p','e']

/-- `get_type` -/
def T2.type (d : T2) : Str := if d.simulator.isEmpty then TOUGH2 else AUTOUGH2

/-! ### section bookkeeping -/

/-- truth value of the entry of `data_present` for one keyword (`get_present_sections`);
    `self.grid` and `self.parameter` are always true. -/
def dataPresent (d : T2) (k : Str) : Bool :=
  if k = SIMUL then !d.simulator.isEmpty
  else if k = ROCKS then !d.rocks.isEmpty
  else if k = PARAM then true
  else if k = LINEQ then !d.lineq.isEmpty
  else if k = SOLVR then !d.solver.isEmpty
  else if k = MULTI then !d.multi.isEmpty
  else if k = ELEME then true
  else if k = CONNE then true
  else if k = GENER then !d.gens.isEmpty
  else if k = SHORT then d.short.truthy
  else if k = FOFT then !d.histBlock.isEmpty
  else if k = COFT then !d.histCon.isEmpty
  else if k = GOFT then !d.histGen.isEmpty
  else d.other.contains k

def presentSections (d : T2) : List Str := sections.filter (dataPresent d)

/-- `section_insertion_index` -/
def sectionInsertionIndex (secs : List Str) (s : Str) : Nat :=
  match sections.findIdx? (· == s) with
  | none => secs.length                           -- `except ValueError`
  | some 0 => 0
  | some li =>
    -- sections above the one specified, nearest first: put the new one just after it
    match (sections.take li).reverse.findSome? (fun k => secs.findIdx? (· == k)) with
    | some j => j + 1
    | none =>
      -- sections from the one specified downwards: put the new one just before the first found
      match (sections.drop li).findSome? (fun k => secs.findIdx? (· == k)) with
      | some j => j
      | none => secs.length

/-- `list.insert(i, x)` for `0 ≤ i` -/
def listInsert (l : List Str) (i : Nat) (x : Str) : List Str := l.take i ++ x :: l.drop i

def insertSectionL (secs : List Str) (s : Str) : List Str :=
  if secs.contains s then secs else listInsert secs (sectionInsertionIndex secs s) s
/-- `delete_section`: `list.remove` removes the first occurrence, `ValueError` is swallowed -/
def deleteSectionL (secs : List Str) (s : Str) : List Str := secs.erase s

def insertSection (d : T2) (s : Str) : T2 := { d with sections := insertSectionL d.sections s }
def deleteSection (d : T2) (s : Str) : T2 := { d with sections := deleteSectionL d.sections s }

/-- `update_sections` (first step of `write`) -/
def updateSectionsL (present secs : List Str) : List Str :=
  let missing := present.filter (fun k => !secs.contains k)
  let s1 := missing.foldl insertSectionL secs
  let extra := s1.filter (fun k => !present.contains k)
  extra.foldl deleteSectionL s1

def updateSections (d : T2) : T2 := { d with sections := updateSectionsL (presentSections d) d.sections }

/-! ### generators -/

/-- `self.generator[key] = obj`: an existing key keeps its position -/
def gdSet : List ((Str × Str) × Nat) → Str × Str → Nat → List ((Str × Str) × Nat)
  | [], k, v => [(k, v)]
  | (k', v') :: r, k, v => if k' == k then (k', v) :: r else (k', v') :: gdSet r k v

/-- `add_generator` -/
def addGenerator (d : T2) (g : Gener) : T2 :=
  { d with gens := d.gens ++ [g], gendict := gdSet d.gendict (g.block, g.name) g.id }

/-- `generator_index` then `del self.generator[key]`, `del self.generatorlist[i]` -/
def deleteGenerator (d : T2) (key : Str × Str) : T2 × Option Exc :=
  match d.gendict.lookup key with
  | none => (d, some .keyError)                     -- index is None, `del self.generator[key]` raises
  | some gid =>
    match d.gens.findIdx? (·.id == gid) with
    | none => (d, some .valueError)                 -- `list.index` of an object that is not in the list
    | some i => ({ d with gendict := d.gendict.filter (·.1 != key), gens := d.gens.eraseIdx i }, none)

def isTough2Type (t : Str) : Bool := allowed.contains t || keepPrefix.isPrefixOf t

/-- `list.remove(gen)`: removes the first element that *is* the object (nothing if absent:
    the caller only removes objects it has just found in the list) -/
def removeObj (l : List Gener) (gid : Nat) : List Gener := l.eraseP (·.id == gid)

/-- first loop of the generator conversion: `if gen.type in convert: gen.type = convert[gen.type]` -/
def convGen (g : Gener) : Gener :=
  match convert.lookup g.type with
  | some t => { g with type := t }
  | Option.none => g

/-- `elif not ((gen.type in allowed) or gen.type.startswith('COM')): delgens.append(gen)` -/
def toDelete (g : Gener) : Bool := (convert.lookup g.type).isNone && !isTough2Type g.type

/-- second loop, lookup part: `if self.generator.get((gen.block, gen.name)) is gen: del self.generator[...]` -/
def dictStep (dc : List ((Str × Str) × Nat)) (g : Gener) : List ((Str × Str) × Nat) :=
  if dc.lookup (g.block, g.name) == some g.id then dc.filter (·.1 != (g.block, g.name)) else dc

/-- the generator list after `convert_AUTOUGH2_generators_to_TOUGH2`: first loop converts in place and
    collects the objects to delete, second loop removes each of them -/
def convGensList (gens : List Gener) : List Gener :=
  (gens.filter toDelete).foldl (fun l g => removeObj l g.id) (gens.map convGen)

/-- the lookup after `convert_AUTOUGH2_generators_to_TOUGH2` -/
def convDict (gens : List Gener) (dict : List ((Str × Str) × Nat)) : List ((Str × Str) × Nat) :=
  (gens.filter toDelete).foldl dictStep dict

/-- `convert_AUTOUGH2_generators_to_TOUGH2` -/
def convertGenerators (d : T2) : T2 :=
  { d with gens := convGensList d.gens, gendict := convDict d.gens d.gendict }

/-! ### parameters -/

/-- `convert_mulkom_heat_conductivity` -/
def scaleRocks (rs : List Rock) : List Rock :=
  rs.map (fun r => { r with conductivity := r.conductivity * (1 - r.porosity) })

def setIf (opt : List Int) (i : Nat) (p : Int → Bool) (v : Int) : List Int :=
  opt.modify i (fun x => if p x then v else x)

def optAt (opt : List Int) (i : Nat) : Int := opt.getD i 0

/-- how many times `convert_mulkom_heat_conductivity` runs: once for MOP(10)=2, once more for
    MOP(23)>0 when the simulator string starts with AUTOUGH2 (but not AUTOUGH2.2) or MULKOM and
    MOP(23) is in [0, 1]; `sim` is `self.simulator` at the time of the call -/
def condCount (sim : Str) (m10 m23 : Int) : Nat :=
  let k10 := if m10 == 2 then 1 else 0
  let isat2 := AUTOUGH2.isPrefixOf sim && !(AUTOUGH2 ++ ['.', '2']).isPrefixOf sim
  let ismulkom := ['M','U','L','K','O','M'].isPrefixOf sim
  let k23 := if m23 > 0 && (isat2 || ismulkom) && (m23 == 0 || m23 == 1) then 1 else 0
  k10 + k23

/-- the MOP part of `convert_AUTOUGH2_parameters_to_TOUGH2`: the new option vector -/
def mopA2T (mp : Bool) (solverType : Int) (opt : List Int) : List Int :=
  let o1 := setIf opt 10 (· == 2) 0
  let o2 := setIf o1 12 (· == 2) 0
  let o3 := o2.modify 21 (fun _ => solverType)
  let o4 := setIf o3 22 (· > 0) 0
  let o5 := setIf o4 23 (· > 0) 0
  let o6 := setIf o5 24 (· > 0) 0
  if mp then
    (setIf (setIf (setIf o6 14 (· > 0) 0) 17 (· > 0) 0) 20 (· > 0) 0).modify 21 (fun _ => 0)
  else o6

/-- `if self.lineq: (4 if self.lineq['type'] <= 1 else 5) else: 4` -/
def solverTypeOfLineq (lineq : Dict) : Except Exc Int :=
  if lineq.isEmpty then .ok 4
  else match lineq.get? kType with
    | Option.none => .error .keyError
    | some (.int i) => .ok (if i ≤ 1 then 4 else 5)
    | some (.num q) => .ok (if q ≤ 1 then 4 else 5)
    | some _ => .error .typeError               -- None <= 1, 'x' <= 1

/-- `if self.multi: (if 'eos' in self.multi: del self.multi['eos']); self.multi['num_inc'] = None` -/
def multiA2T (m : Dict) : Dict :=
  if m.isEmpty then m else (if m.has kEos then m.del kEos else m).set kNumInc .none

/-- `convert_AUTOUGH2_parameters_to_TOUGH2` -/
def convParamsA2T (mp : Bool) (d : T2) : T2 × Option Exc :=
  let d1 := { d with multi := multiA2T d.multi }
  match solverTypeOfLineq d1.lineq with
  | .error e => (d1, some e)
  | .ok st =>
    let d2 := deleteSection { d1 with lineq := [] } LINEQ
    let k := condCount d2.simulator (optAt d2.option 10) (optAt d2.option 23)
    ({ d2 with option := mopA2T mp st d2.option, rocks := Nat.repeat scaleRocks k d2.rocks }, none)

/-- the MOP part of `convert_TOUGH2_parameters_to_AUTOUGH2` -/
def mopT2A (mp : Bool) (opt : List Int) : List Int :=
  let o1 := setIf opt 12 (· == 2) 0
  let o2 := o1.modify 22 (fun _ => 0)
  let o3 := o2.modify 23 (fun _ => 0)
  let o4 := o3.modify 24 (fun _ => 0)
  let o5 := if mp then setIf (setIf (setIf o4 14 (· > 0) 0) 17 (· > 0) 0) 20 (· > 0) 0 else o4
  o5.modify 21 (fun _ => 0)

/-- solver type used for the LINEQ type: `2 if MP else solver['type'] if 'type' in solver else MOP(21)` -/
def solverTypeT2A (mp : Bool) (solver : Dict) (opt : List Int) : PyV :=
  if mp then .int 2
  else match solver.get? kType with
    | some v => v
    | Option.none => .int (optAt opt 21)

/-- `lineq_types[solver_type]` after `if not (0 <= solver_type < len(lineq_types)): solver_type = 0` -/
def lineqTypeOf (st : PyV) : Except Exc Int :=
  match st with
  | .int i => .ok (if 0 ≤ i ∧ i < lineqTypes.length then lineqTypes.getD i.toNat 0 else lineqTypes.getD 0 0)
  | .num q =>
    -- a float passes the range test but cannot index a list
    if 0 ≤ q ∧ q < lineqTypes.length then .error .typeError else .ok (lineqTypes.getD 0 0)
  | _ => .error .typeError                      -- 0 <= None, 0 <= 'x'

def newLineq (ty : Int) : Dict :=
  match lineqKeys with
  | [] => []
  | k :: ks => (k, .int ty) :: ks.map (fun k => (k, PyV.none))

/-- `if self.multi: self.multi['num_inc'] = None` -/
def multiNumInc (m : Dict) : Dict := if m.isEmpty then m else m.set kNumInc .none

/-- `convert_TOUGH2_parameters_to_AUTOUGH2` -/
def convParamsT2A (mp : Bool) (d : T2) : T2 × Option Exc :=
  let d1 := { d with multi := multiNumInc d.multi }
  match lineqTypeOf (solverTypeT2A mp d1.solver d1.option) with
  | .error e => (d1, some e)
  | .ok ty =>
    let d2 := insertSection { d1 with lineq := newLineq ty } LINEQ
    ({ d2 with solver := [], option := mopT2A mp d2.option }, none)

/-! ### short output ↔ history -/

/-- `convert_short_to_history` -/
def shortToHistory (d : T2) : T2 :=
  { d with histBlock := d.short.block.getD d.histBlock,
           histCon := d.short.con.getD d.histCon,
           histGen := d.short.gen.getD d.histGen,
           short := {} }

def Item.isBlk : Item → Bool | .blk _ => true | _ => false
def Item.isCon : Item → Bool | .con _ _ => true | _ => false
def Item.isGen : Item → Bool | .gen _ _ _ => true | _ => false

def keepNonEmpty (l : List Item) : Option (List Item) := if l.isEmpty then none else some l

/-- `convert_history_to_short` -/
def historyToShort (d : T2) : T2 :=
  { d with short := { freq := none,
                      block := keepNonEmpty (d.histBlock.filter Item.isBlk),
                      con := keepNonEmpty (d.histCon.filter Item.isCon),
                      gen := keepNonEmpty (d.histGen.filter Item.isGen) },
           histBlock := [], histCon := [], histGen := [] }

/-! ### the two conversions and the `type` property -/

def INFILE : Str := ['I','N','F','I','L','E']

/-- `convert_to_TOUGH2(warn, MP)` -/
def convertToTough2 (mp : Bool) (d : T2) : T2 × Option Exc :=
  let d0 := if mp then { d with filename := INFILE } else d
  let d1 := deleteSection { d0 with simulator := [] } SIMUL
  match convParamsA2T mp d1 with
  | (d2, some e) => (d2, some e)
  | (d2, Option.none) =>
    (shortToHistory (convertGenerators d2), none)

def isUpperChar (c : Char) : Bool := 'A' ≤ c && c ≤ 'Z'

/-- the file-name rule at the top of `convert_to_AUTOUGH2` -/
def autough2Filename (f : Str) : Str :=
  if f.isEmpty then f
  else if ['.','d','a','t'].isSuffixOf (lower f) then f
  else if isUpperChar (f.headD ' ') then f ++ ['.','D','A','T'] else f ++ ['.','d','a','t']

/-- `if self.multi: self.multi['eos'] = eos` -/
def multiSetEos (eos : Str) (m : Dict) : Dict := if m.isEmpty then m else m.set kEos (.str eos)

/-- `convert_to_AUTOUGH2(warn, MP, simulator, eos)` -/
def convertToAutough2 (mp : Bool) (simulator eos : Str) (d : T2) : T2 × Option Exc :=
  let d0 := { d with filename := autough2Filename d.filename, simulator := ljust simulator 10 ++ eos }
  let d1 := insertSection d0 SIMUL
  let d2 := { d1 with multi := multiSetEos eos d1.multi }
  match convParamsT2A mp d2 with
  | (d3, some e) => (d3, some e)
  | (d3, Option.none) => (historyToShort d3, none)

/-- the `type` setter -/
def setType (value : Str) (d : T2) : T2 × Option Exc :=
  if typeNames.contains value then
    if d.type = value then (d, none)
    else if d.type = AUTOUGH2 then convertToTough2 false d
    else if d.type = TOUGH2 then convertToAutough2 false defaultSimulator defaultEos d
    else (d, none)
  else (d, some .generic)

/-! ### FOFT / COFT / GOFT at the level of name lines

  `write_history_*` prints one name (or pair) per item: a `str`/`tuple` as it is, otherwise
  `item.name` (for a connection the names of its two blocks).  A `t2generator` has a `.name`
  too — the *generator's* name — which is what GOFT then contains.  `read_history_*` looks each
  line up in the grid (when the grid has blocks) and silently drops unknown names.  The
  `fix_blockname`/`unfix_blockname` layer belongs to C01 and is not repeated here: names are
  taken to be stable under it. -/

/-- the text of one history line; `none` stands for an `AttributeError` (no `.name`) -/
def blockLine : Item → Option Str
  | .str s => some s
  | .blk n => some n
  | .gen _ _ n => some n
  | .con _ _ => none
  | .tup _ _ => none

def conLine : Item → Option (Str × Str)
  | .tup a b => some (a, b)
  | .con a b => some (a, b)
  | _ => none

def writeNames (l : List Item) : Option (List Str) := l.mapM blockLine
def writeCons (l : List Item) : Option (List (Str × Str)) := l.mapM conLine

/-- `read_history_blocks` / `read_history_generators` -/
def readNames (blocks : List Str) (lines : List Str) : List Item :=
  if blocks.isEmpty then lines.map .str
  else (lines.filter blocks.contains).map .blk

/-- `read_history_connections` (`cons` = names of the grid's connections) -/
def readCons (blocks : List Str) (cons : List (Str × Str)) (lines : List (Str × Str)) : List Item :=
  if blocks.isEmpty then lines.map (fun p => .tup p.1 p.2)
  else (lines.filter cons.contains).map (fun p => .con p.1 p.2)

end Model.Convert

namespace Model.Convert
open Py

/-! ### SHORT at the level of name lines

  `write_short_output` prints `SHORT` followed by `'%2d' % frequency` (when the key is there and the value is
  true), then for each key that is present a sub-heading `ELEME` / `CONNE` / `GENER` and one line per item
  (`block.name`; the names of a connection's two blocks; `gen.block + gen.name`), then a blank line.
  `read_short_output` takes the frequency from columns 5–6 of the heading line, then reads sub-sections until
  a blank line; each sub-reader collects lines until the next sub-heading or blank line and resolves them
  against the grid / the generator lookup, silently dropping what it does not find.  (As for FOFT/COFT/GOFT
  the `fix_blockname` / `unfix_blockname` layer is left to C01.) -/

/-- decimal text of an integer, as `%d` prints it -/
def intText (f : Int) : Str := if f < 0 then '-' :: Nat.toDigits 10 f.natAbs else Nat.toDigits 10 f.toNat

/-- the heading line (`none`: the `%` operator raises, or the value is a float — not modelled) -/
def shortHeader (so : Short) : Option Str :=
  match so.freq with
  | Option.none => some SHORT
  | some .none => some SHORT
  | some (.int f) => some (if f = 0 then SHORT else SHORT ++ rjust (intText f) 2)
  | some _ => Option.none

def shortBlockLine : Item → Option Str
  | .blk n => some n
  | .gen _ _ n => some n          -- a generator has a `.name` too
  | _ => Option.none
def shortConLine : Item → Option Str
  | .con a b => some (a ++ b)
  | _ => Option.none
def shortGenLine : Item → Option Str
  | .gen _ b n => some (b ++ n)
  | _ => Option.none

/-- a sub-section: nothing when the key is absent, else the sub-heading and one line per item -/
def subLines (kw : Str) (f : Item → Option Str) : Option (List Item) → Option (List Str)
  | Option.none => some []
  | some l => (l.mapM f).map (kw :: ·)

/-- heading line and the lines after it (the last one is the closing blank line) -/
def writeShort (so : Short) : Option (Str × List Str) := do
  let h ← shortHeader so
  let a ← subLines ELEME shortBlockLine so.block
  let b ← subLines CONNE shortConLine so.con
  let c ← subLines GENER shortGenLine so.gen
  pure (h, a ++ b ++ c ++ [[]])

/-- `not line.strip()` -/
def isBlankLine (l : Str) : Bool := l.all isStrWs
/-- `line[0:5] in ['ELEME', 'CONNE', 'GENER']` -/
def isSubHeading (l : Str) : Bool := [ELEME, CONNE, GENER].contains (slice l 0 5)

/-- the lines a sub-reader collects, and the remaining lines starting with the one it stopped at -/
def takeSub : List Str → List Str × List Str
  | [] => ([], [])
  | l :: r => if isBlankLine l || isSubHeading l then ([], l :: r)
              else ((l :: (takeSub r).1), (takeSub r).2)

def resolveBlocks (blocks : List Str) (ls : List Str) : List Item :=
  ((ls.map (slice · 0 5)).filter blocks.contains).map .blk
def resolveCons (cons : List (Str × Str)) (ls : List Str) : List Item :=
  ((ls.map (fun l => (slice l 0 5, slice l 5 10))).filter cons.contains).map (fun p => .con p.1 p.2)
def resolveGens (dict : List ((Str × Str) × Nat)) (ls : List Str) : List Item :=
  (ls.map (fun l => (slice l 0 5, slice l 5 10))).filterMap (fun k => (dict.lookup k).map (fun i => .gen i k.1 k.2))

/-- the loop of `read_short_output` (`fuel` ≥ number of lines + 1 is never exhausted) -/
def readShortLoop (blocks : List Str) (cons : List (Str × Str)) (dict : List ((Str × Str) × Nat)) :
    Nat → List Str → Short → Except Exc Short
  | 0, _, so => .ok so
  | _ + 1, [], so => .ok so
  | fuel + 1, l :: r, so =>
    if isBlankLine l then .ok so
    else
      let kw := slice l 0 5
      if kw = ELEME then readShortLoop blocks cons dict fuel (takeSub r).2 { so with block := some (resolveBlocks blocks (takeSub r).1) }
      else if kw = CONNE then readShortLoop blocks cons dict fuel (takeSub r).2 { so with con := some (resolveCons cons (takeSub r).1) }
      else if kw = GENER then readShortLoop blocks cons dict fuel (takeSub r).2 { so with gen := some (resolveGens dict (takeSub r).1) }
      else .error .keyError          -- read_fn[keyword]

/-- `read_short_output(infile, headerline)` on the lines that follow the heading -/
def readShort (blocks : List Str) (cons : List (Str × Str)) (dict : List ((Str × Str) × Nat))
    (header : Str) (body : List Str) : Except Exc Short :=
  let fr := match pyInt (slice header 5 7) with
    | .ok i => PyV.int i
    | .error _ => PyV.none
  readShortLoop blocks cons dict (body.length + 1) body { freq := some fr }

end Model.Convert
