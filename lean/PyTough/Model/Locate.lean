/-
  Model of the point-location code of PyTOUGH (property C12), over exact rationals.

  geometry.py : in_polygon, in_rectangle, rectangles_intersect, sub_rectangles, bounds_of_points
  mulgrids.py : class quadtree (constructor, leaf, search, search_wave),
                column.near_point / contains_point / bounding_box,
                mulgrid.column_containing_point (columns / guess / bounds / qtree paths),
                layer.contains_elevation, mulgrid.layer_containing_elevation,
                mulgrid.block_name_containing_point, mulgrid.block_contains_point

  Conventions.
  * A column *object* is its index in `columnlist`; a layer is its index in `layerlist`
    (index 0 is the atmosphere layer).  A block is the pair (layer index, column index); the
    naming convention (C17) is outside this model.
  * Python `set`s (`column.neighbour`, `set(nearcols) - donecols`) are lists here, in the order
    the harness sends them; no theorem depends on that order, and under `UniqueAt` neither does
    the result.
  * `numpy.argsort` of the centre distances is modelled as a stable sort by *squared* distance.
  * Arithmetic is exact (`Rat`); IEEE rounding is the stated gap (DESIGN.md §2.3).
  * Recursion that Python bounds by its recursion limit (`quadtree.__init__`) or that terminates
    for a reason the type system does not see (`search_wave`) takes a fuel argument; running out
    of fuel is the distinguished result `none` for the constructor and is shown impossible for
    `search_wave` when called with the fuel `searchFuel` (Proofs/LocateWave.lean, `searchWave_fuel_enough`).
-/
namespace Model.Locate

abbrev Pt := Rat × Rat
abbrev Poly := List Pt
/-- `[bottom left, top right]` -/
abbrev Rect := Pt × Pt

def Pt.sub (a b : Pt) : Pt := (a.1 - b.1, a.2 - b.2)

/-! ### geometry.py -/

/-- `p1[1] <= v[1] < p2[1] or p2[1] <= v[1] < p1[1]` -/
def spans (p1y vy p2y : Rat) : Bool :=
  (decide (p1y ≤ vy) && decide (vy < p2y)) || (decide (p2y ≤ vy) && decide (vy < p1y))

/-- body of the loop of `in_polygon` for one edge `p1 → p2` (already relative to `ref`):
    does this edge add a crossing?  (`d[1]` is non-zero whenever the edge spans `v[1]`;
    core `Rat` division by zero is 0, never reached.) -/
def crossEdge (v p1 p2 : Pt) : Bool :=
  if spans p1.2 v.2 p2.2 then
    let d := Pt.sub p2 p1
    let x := p1.1 + (v.2 - p1.2) * d.1 / d.2
    decide (v.1 < x)
  else false

/-- the pairs `(polygon[i], polygon[(i+1) % n])`, `i = 0 … n-1` -/
def edges : Poly → List (Pt × Pt)
  | [] => []
  | p :: ps => (p :: ps).zip (ps ++ [p])

/-- `numcrossings` of `in_polygon(pos, polygon)` (`ref = polygon[0]` subtracted as in the code) -/
def numCrossings (pos : Pt) (poly : Poly) : Nat :=
  match poly with
  | [] => 0
  | ref :: _ =>
    ((edges poly).filter fun e => crossEdge (pos.sub ref) (e.1.sub ref) (e.2.sub ref)).length

/-- `in_polygon(pos, polygon)`: `numcrossings % 2`.  (On an empty polygon the code raises
    `IndexError` at `polygon[0]`; the model returns 0 — columns always have nodes.) -/
def inPolygon (pos : Pt) (poly : Poly) : Nat := numCrossings pos poly % 2

/-- `in_rectangle(pos, rect)` -/
def inRectangle (pos : Pt) (r : Rect) : Bool :=
  (decide (r.1.1 ≤ pos.1) && decide (pos.1 ≤ r.2.1)) && (decide (r.1.2 ≤ pos.2) && decide (pos.2 ≤ r.2.2))

/-- `rectangles_intersect(rect1, rect2)` -/
def rectanglesIntersect (a b : Rect) : Bool :=
  (decide (a.2.1 ≥ b.1.1) && decide (b.2.1 ≥ a.1.1)) && (decide (a.2.2 ≥ b.1.2) && decide (b.2.2 ≥ a.1.2))

/-- `sub_rectangles(rect)` : `[r0, r1, r2, r3]` -/
def subRectangles (r : Rect) : List Rect :=
  let c : Pt := ((r.1.1 + r.2.1) / 2, (r.1.2 + r.2.2) / 2)
  [ (r.1, c), ((c.1, r.1.2), (r.2.1, c.2)), ((r.1.1, c.2), (c.1, r.2.2)), (c, r.2) ]

def minList (x : Rat) (xs : List Rat) : Rat := xs.foldl min x
def maxList (x : Rat) (xs : List Rat) : Rat := xs.foldl max x

/-- `bounds_of_points(points)` (the code raises `ValueError` on an empty list; model: a
    degenerate rectangle at the origin) -/
def boundsOfPoints : List Pt → Rect
  | [] => ((0, 0), (0, 0))
  | p :: ps => ((minList p.1 (ps.map (·.1)), minList p.2 (ps.map (·.2))),
                (maxList p.1 (ps.map (·.1)), maxList p.2 (ps.map (·.2))))

/-! ### geometry objects -/

structure Column where
  poly : Poly            -- node positions, in order
  centre : Pt
  surface : Rat
  nbrs : List Nat        -- `column.neighbour` (a Python set of column objects)
  deriving Repr

structure Layer where
  bottom : Rat
  top : Rat
  deriving Repr

structure Geo where
  cols : List Column
  layers : List Layer    -- `layerlist`; index 0 is the atmosphere layer
  deriving Repr

def Geo.ncols (g : Geo) : Nat := g.cols.length

/-- `col.polygon` ([] for an index that is not a column) -/
def Geo.poly (g : Geo) (i : Nat) : Poly := match g.cols[i]? with | some c => c.poly | none => []
def Geo.centre (g : Geo) (i : Nat) : Pt := match g.cols[i]? with | some c => c.centre | none => (0, 0)
def Geo.nbrs (g : Geo) (i : Nat) : List Nat := match g.cols[i]? with | some c => c.nbrs | none => []

/-- `col.bounding_box` -/
def Geo.bbox (g : Geo) (i : Nat) : Rect := boundsOfPoints (g.poly i)

/-- `col.near_point(pos)` -/
def Geo.nearPoint (g : Geo) (i : Nat) (pos : Pt) : Bool := inRectangle pos (g.bbox i)

/-- `col.contains_point(pos)` used as a condition (`1` is true, `0` is false) -/
def Geo.containsPoint (g : Geo) (i : Nat) (pos : Pt) : Bool :=
  decide (i < g.ncols) && decide (inPolygon pos (g.poly i) = 1)

/-! ### class quadtree -/

/-- a quadtree node: `bounds`, `elements`, `child` (only non-empty children, in rectangle order) -/
inductive QTree where
  | node (bounds : Rect) (elements : List Nat) (child : List QTree)
  deriving Repr

def QTree.bounds : QTree → Rect | .node b _ _ => b
def QTree.elements : QTree → List Nat | .node _ e _ => e
def QTree.child : QTree → List QTree | .node _ _ c => c

/-- index of the first sub-rectangle containing the point (`for irect … break`) -/
def firstRect (p : Pt) (rects : List Rect) : Option Nat := rects.findIdx? (inRectangle p)

/-- `quadtree.__init__(bounds, elements, parent)`; `fuel` stands for Python's recursion limit
    (two elements with the same centre recurse for ever in the real code: `none` here). -/
def buildQ (g : Geo) : Nat → Rect → List Nat → Option QTree
  | 0, _, _ => none
  | fuel + 1, bounds, elts =>
    if elts.length > 1 then
      let rects := subRectangles bounds
      let groups := (List.range 4).map fun k => elts.filter fun e => firstRect (g.centre e) rects == some k
      let todo := (rects.zip groups).filter fun rg => rg.2.length > 0
      match todo.mapM (fun rg => buildQ g fuel rg.1 rg.2) with
      | some ch => some (.node bounds elts ch)
      | none => none
    else some (.node bounds elts [])

def quadFuel : Nat := 200

/-- a quadtree with the root's `all_elements` -/
structure QT where
  root : QTree
  all : List Nat
  deriving Repr

/-- `mulgrid.column_quadtree(columns)` given the bounds the code computes -/
def columnQuadtree (g : Geo) (bounds : Rect) (columns : List Nat) : Option QT :=
  match buildQ g quadFuel bounds columns with
  | some t => some ⟨t, columns⟩
  | none => none

mutual
/-- `quadtree.leaf(pos)` -/
def QTree.leaf (p : Pt) : QTree → Option QTree
  | .node b e ch =>
    if inRectangle p b then
      match leafList p ch with
      | some l => some l
      | none => some (.node b e ch)
    else none
/-- the `for child in self.child` loop of `leaf` -/
def leafList (p : Pt) : List QTree → Option QTree
  | [] => none
  | c :: cs =>
    match c.leaf p with
    | some l => some l
    | none => leafList p cs
end

/-- the inner `for nbr in elt.neighbour & self.all_elements` loop of `search_wave` -/
def waveStep (g : Geo) (bounds : Rect) (done : List Nat) (todo : List Nat) (nbrs : List Nat) : List Nat :=
  nbrs.foldl (fun td n =>
    if rectanglesIntersect (g.bbox n) bounds && !(done.contains n || td.contains n) then td ++ [n] else td) todo

/-- the `while len(todo) > 0` loop of `quadtree.search_wave` -/
def searchWaveLoop (g : Geo) (all : List Nat) (bounds : Rect) (p : Pt) : Nat → List Nat → List Nat → Option Nat
  | 0, _, _ => none
  | _ + 1, [], _ => none
  | fuel + 1, elt :: todo, done =>
    if g.containsPoint elt p then some elt
    else
      let done' := done ++ [elt]
      let nb := (g.nbrs elt).filter fun n => all.contains n
      searchWaveLoop g all bounds p fuel (waveStep g bounds done' todo nb) done'

def searchFuel (all elements : List Nat) : Nat := all.length + elements.length + 1

/-- `leaf.search_wave(pos)` -/
def searchWave (g : Geo) (all : List Nat) (leaf : QTree) (p : Pt) : Option Nat :=
  searchWaveLoop g all leaf.bounds p (searchFuel all leaf.elements) leaf.elements []

/-- `qtree.search(pos)` -/
def QT.search (g : Geo) (q : QT) (p : Pt) : Option Nat :=
  match q.root.leaf p with
  | some l => searchWave g q.all l p
  | none => none

/-! ### mulgrid.column_containing_point -/

/-- the optional arguments of `column_containing_point` -/
structure Aids where
  columns : Option (List Nat) := none
  guess : Option Nat := none
  bounds : Option Poly := none      -- two points: a rectangle; otherwise a polygon
  qtree : Option QT := none

def distSq (a b : Pt) : Rat := (a.1 - b.1) * (a.1 - b.1) + (a.2 - b.2) * (a.2 - b.2)

/-- `[cols[i] for i in np.argsort([norm(col.centre - pos) for col in cols])]` -/
def sortByDist (g : Geo) (pos : Pt) (cols : List Nat) : List Nat :=
  cols.mergeSort fun a b => decide (distSq (g.centre a) pos ≤ distSq (g.centre b) pos)

/-- `for i in sortindex: if cols[i].contains_point(pos): return cols[i]` -/
def firstContaining (g : Geo) (pos : Pt) (cols : List Nat) : Option Nat :=
  (sortByDist g pos cols).find? fun c => g.containsPoint c pos

def inBounds (pos : Pt) : Option Poly → Bool
  | none => true
  | some [a, b] => inRectangle pos (a, b)
  | some poly => decide (inPolygon pos poly ≠ 0)

/-- the full search at the end of `column_containing_point` (after the guess) -/
def fullSearch (g : Geo) (pos : Pt) (searchcols donecols : List Nat) (qtree : Option QT) : Option Nat :=
  match qtree with
  | some q => q.search g pos
  | none =>
    let nearcols := ((searchcols.filter fun c => g.nearPoint c pos).eraseDups).filter fun c => !donecols.contains c
    firstContaining g pos nearcols

/-- `searchcols`: `self.columnlist` unless `columns` is given -/
def searchCols (g : Geo) (a : Aids) : List Nat :=
  match a.columns with
  | none => List.range g.ncols
  | some cs => cs

/-- the body of `column_containing_point` inside `if inbounds:` -/
def guessSearch (g : Geo) (pos : Pt) (searchcols : List Nat) (guess : Option Nat) (qtree : Option QT) : Option Nat :=
  match guess with
  | none => fullSearch g pos searchcols [] qtree
  | some gu =>
    if g.containsPoint gu pos then some gu
    else
      -- neighbours of the guess, sorted by distance from pos
      let nearnbrcols := (g.nbrs gu).filter fun c => g.nearPoint c pos && searchcols.contains c
      match firstContaining g pos nearnbrcols with
      | some c => some c
      | none => fullSearch g pos searchcols (gu :: nearnbrcols) qtree

/-- `mulgrid.column_containing_point(pos, columns, guess, bounds, qtree)` -/
def columnContainingPoint (g : Geo) (pos : Pt) (a : Aids) : Option Nat :=
  if inBounds pos a.bounds then guessSearch g pos (searchCols g a) a.guess a.qtree else none

/-! ### layers and blocks -/

/-- `layer.contains_elevation(z)` -/
def Layer.containsElevation (l : Layer) (z : Rat) : Bool := decide (l.bottom ≤ z) && decide (z ≤ l.top)

/-- index (in `layerlist`) of the first layer of `layerlist[1:]` containing `z` -/
def layerScan (z : Rat) : Nat → List Layer → Option Nat
  | _, [] => none
  | i, l :: ls => if l.containsElevation z then some i else layerScan z (i + 1) ls

/-- `mulgrid.layer_containing_elevation(z)` -/
def layerContainingElevation (g : Geo) (z : Rat) : Option Nat := layerScan z 1 (g.layers.drop 1)

/-- `mulgrid.block_name_containing_point(pos, qtree)`: the (layer, column) whose name is returned.
    `none` inside `ok` is Python's `None`; `error indexError` is `self.layerlist[0]` / `[1]` on
    a geometry with fewer than two layers. -/
def blockContainingPoint (g : Geo) (pos : Pt) (z : Rat) (qtree : Option QT) : Except Unit (Option (Nat × Nat)) :=
  match columnContainingPoint g pos { qtree := qtree } with
  | none => .ok none
  | some ci =>
    match g.cols[ci]?, g.layers[0]?, g.layers[1]? with
    | some col, some l0, some _ =>
      let layer := if decide (l0.bottom < z) && decide (z ≤ col.surface) then some 1
                   else layerContainingElevation g z
      match layer with
      | none => .ok none
      | some li =>
        match g.layers[li]? with
        | some lay => if col.surface > lay.bottom then .ok (some (li, ci)) else .ok none
        | none => .ok none
    | some col, some l0, none =>
      -- `layerlist[1]` is only evaluated when the first condition holds
      if decide (l0.bottom < z) && decide (z ≤ col.surface) then .error ()
      else .ok none      -- `layerlist[1:]` is empty
    | _, _, _ => .error ()

/-- `mulgrid.block_contains_point(blockname, pos)` for the block (layer `li`, column `ci`);
    names that are not in the dictionaries give `False`. -/
def blockContainsPoint (g : Geo) (li ci : Nat) (pos : Pt) (z : Rat) : Bool :=
  match g.cols[ci]?, g.layers[li]? with
  | some col, some lay =>
    if col.surface > lay.bottom then
      if lay.containsElevation z then g.containsPoint ci pos else false
    else false
  | _, _ => false

end Model.Locate
