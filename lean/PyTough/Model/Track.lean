/-
  Model of `mulgrid.column_track` and of the line helpers of geometry.py it uses
  (`line_intersects_rectangle`, `line_polygon_intersections`), over exact rationals (C12).

  This part of C12 is tied to the code by the correspondence facet `track` and checked by the exact
  clipping oracle only: there are no theorems about it (see Props/C12.lean, "not proved").

  How the floating-point steps are represented exactly.
  * `numpy.linalg.solve` of the 2×2 system is Cramer's rule; `LinAlgError` (singular matrix) is `det = 0`.
  * Every accepted crossing lies on the line, so its distance from the line start is `|xi[1]|·‖line‖`;
    `norm` (a square root) never has to be evaluated: the two places where distances are compared
    (`d.round(decimals = 3)` after scaling by the polygon's longest side, and
    `abs(dout - din) > col_tol`) are decided on the *squares*, which are rational.
  * A decision taken by less than 10⁻⁹ relative (a rounding tie, the clip threshold) is reported as
    `unstable`; the harness discards and counts such cases.
-/
import PyTough.Model.Locate
namespace Model.Track
open Model.Locate

inductive Out (α : Type) where
  | ok (v : α)
  | unstable (why : String)
  deriving DecidableEq

instance : Monad Out where
  pure := .ok
  bind x f := match x with | .ok v => f v | .unstable w => .unstable w

/-! ### line_intersects_rectangle (simplified Cohen–Sutherland) -/

/-- `clip(xa, ya)` : INSIDE 0, LEFT 1, RIGHT 2, LOWER 4, UPPER 8 -/
def clipCode (r : Rect) (x y : Rat) : Nat :=
  (if x < r.1.1 then 1 else if x > r.2.1 then 2 else 0) |||
  (if y < r.1.2 then 4 else if y > r.2.2 then 8 else 0)

/-- the `while (k1 | k2) != 0` loop; `none` = fuel exhausted (never in exact arithmetic) -/
def lirLoop (r : Rect) : Nat → Rat → Rat → Rat → Rat → Nat → Nat → Option Bool
  | 0, _, _, _, _, _, _ => none
  | fuel + 1, x1, y1, x2, y2, k1, k2 =>
    if (k1 ||| k2) = 0 then some true
    else if (k1 &&& k2) ≠ 0 then some false
    else
      let opt := if k1 ≠ 0 then k1 else k2      -- `k1 or k2`
      let xy : Pt :=
        if opt &&& 8 ≠ 0 then (x1 + (x2 - x1) * (r.2.2 - y1) / (y2 - y1), r.2.2)
        else if opt &&& 4 ≠ 0 then (x1 + (x2 - x1) * (r.1.2 - y1) / (y2 - y1), r.1.2)
        else if opt &&& 2 ≠ 0 then (r.2.1, y1 + (y2 - y1) * (r.2.1 - x1) / (x2 - x1))
        else (r.1.1, y1 + (y2 - y1) * (r.1.1 - x1) / (x2 - x1))
      if opt = k1 then lirLoop r fuel xy.1 xy.2 x2 y2 (clipCode r xy.1 xy.2) k2
      else lirLoop r fuel x1 y1 xy.1 xy.2 k1 (clipCode r xy.1 xy.2)

def lineIntersectsRectangle (r : Rect) (a b : Pt) : Option Bool :=
  lirLoop r 16 a.1 a.2 b.1 b.2 (clipCode r a.1 a.2) (clipCode r b.1 b.2)

/-! ### line_polygon_intersections -/

def lpiTol : Rat := 1 / 1000000000

/-- `solve(column_stack((u, w)), b)` -/
def solve2 (u w b : Pt) : Option (Rat × Rat) :=
  let det := u.1 * w.2 - w.1 * u.2
  if det = 0 then none
  else some ((b.1 * w.2 - w.1 * b.2) / det, (u.1 * b.2 - b.1 * u.2) / det)

/-- a crossing: the point and its parameter `xi[1]` along the line -/
structure Cross where
  pt : Pt
  t : Rat
  deriving DecidableEq

/-- the body of the loop of `line_polygon_intersections` for one edge: the crossing it adds to the
    dict `ind`, if any (`xi[0]` along the edge and `xi[1]` along the line both in `[-tol, 1+tol]`) -/
def edgeCross (a b : Pt) (e : Pt × Pt) : Option Cross :=
  let dp := Pt.sub e.2 e.1
  match solve2 dp (Pt.sub a b) (Pt.sub a e.1) with
  | none => none
  | some (xi0, xi1) =>
    if (-lpiTol ≤ xi0 && xi0 ≤ 1 + lpiTol) && (-lpiTol ≤ xi1 && xi1 ≤ 1 + lpiTol) then
      some ⟨(e.1.1 + xi0 * dp.1, e.1.2 + xi0 * dp.2), xi1⟩
    else none

/-- `ind[c] = i`: a key already present keeps its place -/
def crossStep (a b : Pt) (acc : List Cross) (e : Pt × Pt) : List Cross :=
  match edgeCross a b e with
  | none => acc
  | some c => if acc.any (fun x => x.pt == c.pt) then acc else acc ++ [c]

/-- the loop over the polygon's edges -/
def crossings (poly : Poly) (a b : Pt) : List Cross := (edges poly).foldl (crossStep a b) []

/-- squared longest side of a polygon (`max(side_lengths)²`) -/
def maxSideSq (poly : Poly) : Rat := ((edges poly).map fun e => distSq e.1 e.2).foldl max 0

/-- nearest integer to `√D` (`D ≥ 0`), or `unstable` within 10⁻⁹ relative of a half-way point -/
def roundSqrt (D : Rat) : Out Nat :=
  let m := Nat.sqrt D.floor.toNat
  let B : Rat := ((m : Rat) + 1 / 2) * ((m : Rat) + 1 / 2)
  if (D - B).abs ≤ B / 1000000000 then .unstable "round-tie"
  else if D < B then .ok m else .ok (m + 1)

/-- insert into the sorted list of (rounded distance, first index) pairs kept by `np.unique` -/
def insertUnique (k : Nat) (i : Nat) : List (Nat × Nat) → List (Nat × Nat)
  | [] => [(k, i)]
  | (k', i') :: r => if k < k' then (k, i) :: (k', i') :: r else if k = k' then (k', i') :: r else (k', i') :: insertUnique k i r

/-- smallest `|xi[1]|` of the crossings (`min(d)` up to the factor ‖line‖) -/
def tMin (c0 : Cross) (cs : List Cross) : Rat := (cs.map fun c => c.t.abs).foldl min c0.t.abs

/-- `(1000 · d)²` for the non-dimensionalised distance `d = (‖c − line[0]‖ − min) / scale` of a
    crossing (`scale` = longest side of the polygon; not scaled when that is 0) -/
def nondimSq (L2 S2 tmin : Rat) (c : Cross) : Rat :=
  if S2 > 0 then (c.t.abs - tmin) * (c.t.abs - tmin) * L2 / S2 * 1000000
  else c.t.abs * c.t.abs * L2 * 1000000

/-- `d.round(decimals = 3)` and `np.unique(d, return_index = True)` over the crossings -/
def roundAll (D : Cross → Rat) : Nat → List Cross → List (Nat × Nat) → Out (List (Nat × Nat))
  | _, [], acc => .ok acc
  | i, c :: r, acc =>
    match roundSqrt (D c) with
    | .ok k => roundAll D (i + 1) r (insertUnique k i acc)
    | .unstable w => .unstable w

def linePolygonIntersectionsT (poly : Poly) (a b : Pt) : Out (List Cross) :=
  match crossings poly a b with
  | [] => .ok []
  | c0 :: cs =>
    match roundAll (nondimSq (distSq a b) (maxSideSq poly) (tMin c0 (c0 :: cs))) 0 (c0 :: cs) [] with
    | .unstable w => .unstable w
    | .ok uniq => .ok (uniq.filterMap fun ki => (c0 :: cs)[ki.2]?)

def linePolygonIntersections (poly : Poly) (a b : Pt) : Out (List Pt) :=
  match linePolygonIntersectionsT poly a b with
  | .ok cs => .ok (cs.map (·.pt))
  | .unstable w => .unstable w

/-! ### mulgrid.column_track -/

/-- one entry `(col, entry point, exit point)` of the track; `sin`, `sout` are the parameters of the
    two points along the line (`point = line[0] + s·(line[1] − line[0])`), so that
    `track_dist(point) = |s|·‖line‖` -/
structure Seg where
  col : Nat
  pin : Pt
  pout : Pt
  sin : Rat
  sout : Rat
  deriving DecidableEq

/-- `dist` (entry distance) up to the factor ‖line‖ -/
def Seg.tin (s : Seg) : Rat := s.sin.abs

abbrev TrackOut := Out (List Seg)

structure TState where
  startCol : Option Nat := none
  endCol : Option Nat := none
  track : List Seg := []
  deriving DecidableEq

/-- `abs(dout - din) > col_tol`, decided on squares; `unstable` within 10⁻⁶ relative -/
def longEnough (poly : Poly) (L2 tin tout : Rat) : Out Bool :=
  let lhs := (tout.abs - tin.abs) * (tout.abs - tin.abs) * L2
  let rhs := maxSideSq poly / 1000000
  if (lhs - rhs).abs ≤ rhs / 1000000 then .unstable "clip-threshold"
  else .ok (decide (lhs > rhs))

/-- the `else:` branch of the loop body for one column: the entry it appends, if any
    (`isStart` : `col == start_col`, `isEnd` : `col == end_col`) -/
def colSeg (g : Geo) (a b : Pt) (ci : Nat) (isStart isEnd : Bool) : Out (Option Seg) :=
  match linePolygonIntersectionsT (g.poly ci) a b with
  | .unstable w => .unstable w
  | .ok [] => .ok none
  | .ok (p0 :: ps) =>
    let plast := (p0 :: ps).getLast?.getD p0
    let io : Cross × Cross :=
      if isStart then (⟨a, 0⟩, plast)
      else if isEnd then (p0, ⟨b, 1⟩)
      else (p0, plast)
    match longEnough (g.poly ci) (distSq a b) io.1.t io.2.t with
    | .unstable w => .unstable w
    | .ok true => .ok (some ⟨ci, io.1.pt, io.2.pt, io.1.t, io.2.t⟩)
    | .ok false => .ok none

/-- the `for col in self.columnlist` loop (with its `break`) -/
def trackLoop (g : Geo) (a b : Pt) : List Nat → TState → Out TState
  | [], st => .ok st
  | ci :: rest, st =>
    match lineIntersectsRectangle (g.bbox ci) a b with
    | none => .unstable "clip-loop"
    | some false => trackLoop g a b rest st
    | some true =>
      let st1 := if st.startCol.isNone && g.containsPoint ci a then { st with startCol := some ci } else st
      let st2 := if st1.endCol.isNone && g.containsPoint ci b then { st1 with endCol := some ci } else st1
      if st2.startCol == some ci && st2.endCol == some ci then
        .ok { st2 with track := st2.track ++ [⟨ci, a, b, 0, 1⟩] }          -- `break`
      else
        match colSeg g a b ci (st2.startCol == some ci) (st2.endCol == some ci) with
        | .unstable w => .unstable w
        | .ok none => trackLoop g a b rest st2
        | .ok (some s) => trackLoop g a b rest { st2 with track := st2.track ++ [s] }

/-- two entry distances too close for `argsort` to be reproducible -/
def sortTie (l : List Seg) : Bool :=
  match l with
  | [] => false
  | s :: r => r.any (fun s' => (s'.tin - s.tin).abs ≤ 1 / 1000000000) || sortTie r

/-- `mulgrid.column_track(line)` -/
def columnTrack (g : Geo) (a b : Pt) : TrackOut :=
  match trackLoop g a b (List.range g.ncols) {} with
  | .unstable w => .unstable w
  | .ok st =>
    if sortTie st.track then .unstable "sort-tie"
    else .ok (st.track.mergeSort fun s s' => decide (s.tin ≤ s'.tin))

/-! ### decidable hypotheses of the track theorems (Props/C12.lean), evaluated by the driver on every
    explored line; they are not part of the model of the code -/

/-- exactly two crossings, parameters inside the line, further apart than the clip tolerance -/
def crossedLongB (g : Geo) (a b : Pt) (ci : Nat) : Bool :=
  match crossings (g.poly ci) a b with
  | [c1, c2] =>
    decide (0 ≤ c1.t) && decide (c1.t ≤ 1) && decide (0 ≤ c2.t) && decide (c2.t ≤ 1) &&
    decide (maxSideSq (g.poly ci) / 1000000 < (c2.t - c1.t) * (c2.t - c1.t) * distSq a b) &&
    decide (0 < maxSideSq (g.poly ci))
  | _ => false

/-- exactly one crossing, inside the line (the start or end column, or a column touched at a point) -/
def oneCrossB (g : Geo) (a b : Pt) (ci : Nat) : Bool :=
  match crossings (g.poly ci) a b with
  | [c] => decide (0 ≤ c.t) && decide (c.t ≤ 1)
  | _ => false

/-- no column contains both end points (the loop does not `break`) -/
def notInOneB (g : Geo) (a b : Pt) : Bool :=
  (List.range g.ncols).all fun c => !(g.containsPoint c a && g.containsPoint c b)

/-- at most one column contains the point -/
def uniqueAtB (g : Geo) (p : Pt) : Bool :=
  decide (((List.range g.ncols).filter fun c => g.containsPoint c p).length ≤ 1)

def boxSymB (g : Geo) (a b : Pt) : Bool :=
  (List.range g.ncols).all fun ci => lineIntersectsRectangle (g.bbox ci) a b == lineIntersectsRectangle (g.bbox ci) b a

/-- every column that passes the bounding-box test is either not crossed at all or crossed cleanly -/
def cleanB (g : Geo) (a b : Pt) : Bool :=
  (List.range g.ncols).all fun ci =>
    !(lineIntersectsRectangle (g.bbox ci) a b == some true) ||
      (crossings (g.poly ci) a b).isEmpty || crossedLongB g a b ci || oneCrossB g a b ci

def revHypB (g : Geo) (a b : Pt) : Bool :=
  notInOneB g a b && uniqueAtB g a && uniqueAtB g b && boxSymB g a b && cleanB g a b

/-- entries run forwards along the line without overlapping, from parameter `lo` on -/
def orderedB : Rat → List Seg → Bool
  | lo, [] => decide (lo ≤ 1)
  | lo, s :: r => decide (lo ≤ s.sin) && decide (s.sin ≤ s.sout) && orderedB s.sout r

/-- counts for the evidence: columns passing the box test; of these: not crossed, crossed twice far
    enough apart (`crossedLongB`), crossed once inside the line (`oneCrossB`), anything else -/
def trackHypCounts (g : Geo) (a b : Pt) : List Nat :=
  (List.range g.ncols).foldl (fun acc ci =>
    if lineIntersectsRectangle (g.bbox ci) a b == some true then
      let k := if (crossings (g.poly ci) a b).isEmpty then 1
               else if crossedLongB g a b ci then 2 else if oneCrossB g a b ci then 3 else 4
      acc.mapIdx fun i v => if i = 0 || i = k then v + 1 else v
    else acc) [0, 0, 0, 0, 0]

end Model.Track
