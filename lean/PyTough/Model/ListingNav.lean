/-
  Navigation of a listing (t2listing.first/last/next/prev, the index/time/step setters), as a state
  machine over an abstract reader.

  `Nav V E` says what the machine needs to know about a reader with state `V`:
    n        number of full result times                                  (len(self.fulltimes))
    idx      the current index                                            (self._index)
    load j   seek to result `j` (0 ≤ j < n), set the index, re-read all tables   (the body of set_index)
  The whole-file model (Model/ListingFile.lean) provides an instance; the theorems of Props/C07 hold for
  every instance.

  `set_time` / `set_step` pick the index by `numpy.argmin(abs(values - x))` with clamps at both ends; the
  choice function is generic in the number type: the driver runs it on `Float` (IEEE doubles, as numpy
  does), the theorems are about exact numbers.
-/
import PyTough.Py.Str
namespace Model.Nav
open Py

structure Nav (V E : Type) where
  n : Nat
  idx : V → Int
  load : Nat → V → Except E V
  indexError : E

variable {V E : Type}

/-- `self.index = i`:  `self._file.seek(self._fullpos[i])` raises IndexError unless `-n ≤ i < n`
    (before anything is changed); then `_index = i`, normalised if negative; then `read_tables()` -/
def setIndex (N : Nav V E) (i : Int) (v : V) : Except E V :=
  let n : Int := N.n
  if i < -n ∨ i ≥ n then .error N.indexError
  else N.load (if i < 0 then i + n else i).toNat v

def first (N : Nav V E) (v : V) : Except E V := setIndex N 0 v
def last (N : Nav V E) (v : V) : Except E V := setIndex N (-1) v

/-- `next()`: `more = self.index < self.num_fulltimes - 1; if more: self.index += 1; return more` -/
def next (N : Nav V E) (v : V) : Except E (Bool × V) :=
  if N.idx v < (N.n : Int) - 1 then (fun v' => (true, v')) <$> setIndex N (N.idx v + 1) v
  else .ok (false, v)

/-- `prev()` -/
def prev (N : Nav V E) (v : V) : Except E (Bool × V) :=
  if N.idx v > 0 then (fun v' => (true, v')) <$> setIndex N (N.idx v - 1) v
  else .ok (false, v)

/-! ### nearest selection -/

/-- `numpy.argmin`: index of the first minimum (`lt` is the strict order of the number type) -/
def argminFrom {D : Type} (lt : D → D → Bool) : List D → Nat → D → Nat → Nat
  | [], _, _, besti => besti
  | d :: r, i, best, besti => if lt d best then argminFrom lt r (i + 1) d i else argminFrom lt r (i + 1) best besti

def argmin {D : Type} (lt : D → D → Bool) : List D → Nat
  | [] => 0
  | d :: r => argminFrom lt r 1 d 0

/-- the index assigned by `set_time(t)` / `set_step(s)`:
    `if t < v[0]: 0  elif t > v[-1]: -1  else: argmin(abs(v - t))` -/
def nearestIndex {T : Type} (lt : T → T → Bool) (dist : T → T → T) (vals : List T) (t : T) : Option Int :=
  match vals.head?, vals.getLast? with
  | some v0, some vl =>
    if lt t v0 then some 0
    else if lt vl t then some (-1)
    else some (argmin lt (vals.map (fun v => dist v t)) : Nat)
  | _, _ => none

def setNearest {T : Type} (N : Nav V E) (lt : T → T → Bool) (dist : T → T → T) (vals : List T) (t : T) (v : V) : Except E V :=
  match nearestIndex lt dist vals t with
  | some i => setIndex N i v
  | none => .error N.indexError          -- fulltimes[0] on an empty array

/-! ### operation sequences -/

inductive Op (T : Type) where
  | first | last | next | prev
  | index (i : Int)
  | time (t : T)
  | step (s : Int)
  | history                      -- a history() call that returns: index and tables are as before
  deriving Repr

def distInt (a b : Int) : Int := if a < b then b - a else a - b

/-- one action; the Boolean is what next/prev report (true for the others) -/
def apply {T : Type} (N : Nav V E) (lt : T → T → Bool) (dist : T → T → T) (times : List T) (steps : List Int)
    (op : Op T) (v : V) : Except E (Bool × V) :=
  match op with
  | .first => (fun v' => (true, v')) <$> first N v
  | .last => (fun v' => (true, v')) <$> last N v
  | .next => next N v
  | .prev => prev N v
  | .index i => (fun v' => (true, v')) <$> setIndex N i v
  | .time t => (fun v' => (true, v')) <$> setNearest N lt dist times t v
  | .step s => (fun v' => (true, v')) <$> setNearest N (fun a b => decide (a < b)) distInt steps s v
  | .history => .ok (true, v)

def run {T : Type} (N : Nav V E) (lt : T → T → Bool) (dist : T → T → T) (times : List T) (steps : List Int) :
    List (Op T) → V → Except E V
  | [], v => .ok v
  | op :: ops, v =>
    match apply N lt dist times steps op v with
    | .ok (_, v') => run N lt dist times steps ops v'
    | .error e => .error e

end Model.Nav
