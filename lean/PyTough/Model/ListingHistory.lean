/-
  Model of t2listing.history(): `tablename_from_specification`, `ordered_selection`, the loop over
  result positions with skip_to_table_* / skip_to_results_line, and the sequential read of the
  selected row lines.  Built on the whole-file machine (Model/ListingFile.lean); a `skip_to_table`
  that never finds its table spins at end of file: `LErr.diverges`.

  The part the property theorem is about — reading the selected lines of one table in one pass —
  is the pure function `scanSel` over the remaining lines.
-/
import PyTough.Model.ListingFile
import PyTough.Model.ListingNav
namespace Model.Listing
open Py Model

/-- a row given by integer index or by name (a string, or a tuple of strings) -/
inductive HKey where
  | int (i : Int)
  | name (k : Key)
  deriving DecidableEq, Repr, Inhabited

structure Item where
  spec : Str
  key : HKey
  col : Str
  deriving Repr, Inhabited

/-- `tablename_from_specification` -/
def tablenameFromSpec (spec : Str) : Except LErr (Option String) := do
  match spec with
  | [] => throw (.py .indexError)
  | c :: _ =>
    let base : Option String := match lowerChar c with
      | 'e' => some "element" | 'c' => some "connection" | 'g' => some "generation" | 'p' => some "primary"
      | _ => none
    match base with
    | none => return none
    | some b =>
      let lastc := spec.getLast!
      if isDigit lastc then return some (b ++ String.singleton lastc) else return some b

/-- one converted selection entry: (table, line index, line index in short output, column, reversed, position in the selection) -/
structure Conv where
  table : String
  index : Int
  ishort : Option Nat
  col : Str
  rev : Bool
  sel : Nat
  deriving Repr, Inhabited

/-- a selected line of a table: (line index, column, reversed, position in the selection) -/
abbrev Sel := Int × Str × Bool × Nat

def strLt : Str → Str → Bool
  | [], [] => false
  | [], _ :: _ => true
  | _ :: _, [] => false
  | a :: s, b :: t => if a < b then true else if b < a then false else strLt s t

/-- Python's tuple order on (int, str, bool, int) -/
def selLe (a b : Sel) : Bool :=
  if a.1 < b.1 then true else if b.1 < a.1 then false
  else if strLt a.2.1 b.2.1 then true else if strLt b.2.1 a.2.1 then false
  else if (!a.2.2.1 && b.2.2.1) then true else if (a.2.2.1 && !b.2.2.1) then false
  else a.2.2.2 ≤ b.2.2.2

def insertSel (e : Sel) : List Sel → List Sel
  | [] => [e]
  | x :: r => if selLe e x then e :: x :: r else x :: insertSel e r

/-- `tselect.sort()` -/
def sortSel (l : List Sel) : List Sel := l.foldr insertSel []

def fileOrder : List String := ["element", "element1", "connection", "primary", "element2", "generation"]

def convertItem (s : Rd) (selIndex : Nat) (it : Item) : Except LErr (Option Conv) := do
  let some tablename ← tablenameFromSpec it.spec | return none
  let some t := s.tables.lookup tablename | return none
  let found : Option (Int × Bool) :=
    match it.key with
    | .int i => some (i, false)
    | .name k =>
      match lastIdx t.rows k with
      | some i => some (i, false)
      | none =>
        if pyLenKey k > 1 && t.allowRev then
          match lastIdx t.rows (pyRevKey k) with
          | some i => some (i, true)
          | none => none
        else none
  let some (index, reverse) := found | return none
  -- if tables[tablename].row_line: index = row_line[index]
  let index ← match t.rowLine with
    | some rl =>
      if rl.size = 0 then pure index
      else
        let n : Int := rl.size
        let j := if index < 0 then index + n else index
        if j < 0 ∨ j ≥ n then throw (.py .indexError) else pure ((rl[j.toNat]!) : Int)
    | none => pure index
  let shortKw : Str := (match it.spec with | c :: _ => [upperChar c] | [] => []) ++ S "SHORT"
  let ishort ←
    if s.shortTypes.contains shortKw then
      match s.shortIndices.lookup shortKw with
      | none => throw (.py .keyError)
      | some d => pure (d.lookup index)
    else pure none
  return some { table := tablename, index, ishort, col := it.col, rev := reverse, sel := selIndex }

def orderedSelection (s : Rd) (items : List Item) : Except LErr (List (String × List Sel × List Sel)) := do
  let rec conv : List Item → Nat → Except LErr (List Conv)
    | [], _ => pure []
    | it :: r, k => do
      let c ← convertItem s k it
      let more ← conv r (k + 1)
      pure (match c with | some x => x :: more | none => more)
  let cs ← conv items 0
  let tables := fileOrder.filter (fun tn => cs.any (·.table = tn))
  return tables.map fun tn =>
    let mine := cs.filter (·.table = tn)
    let tsel := sortSel (mine.map fun c => (c.index, c.col, c.rev, c.sel))
    let tshort := sortSel (mine.filterMap fun c => c.ishort.map fun k => ((k : Int), c.col, c.rev, c.sel))
    (tn, tsel, tshort)

/-! ### skip_to_table_* -/

def tableCharC (tablename : String) : C Char :=
  match tablename.toList with
  | [] => Cu.raise .indexError
  | c :: _ => pure (upperChar c)

def skipToTableAUTOUGH2 (tablename : String) : C Unit := do
  let tablechar ← tableCharC tablename
  let s ← read
  let index := (← get).index
  let sz : Int := s.short.size
  let j := if index < 0 then index + sz else index
  if j < 0 ∨ j ≥ sz then Cu.raise .indexError
  let isShort := s.short[j.toNat]!
  let (keyword, firstChar) ←
    if isShort then
      match s.shortTypes with
      | [] => Cu.raise .indexError
      | st :: _ => match st with
        | [] => Cu.raise .indexError
        | c :: _ => pure (tablechar :: S "SHORT", c)
    else pure (List.replicate 5 tablechar, 'E')
  if tablechar != firstChar then let _ ← Cu.skipto [keyword]
  let _ ← Cu.skipto1 "OUTPUT"
  let _ ← Cu.skipto [keyword]
  Cu.skipToBlank
  Cu.skipToNonblank

/-- `while tname != tablename: Cu.skipto('@@@@@'); tname = next_table_TOUGH2()`; an iteration that reads nothing
    is at end of file and will repeat for ever -/
def skipToTableTOUGH2 (tablename : String) (lastTablename : Option String) : C Unit := do
  let tname0 ← match lastTablename with
    | none => do
      let _ ← Cu.skipto1 "@@@@@"
      Cu.skipToNonblank
      pure (some "element")
    | some l => pure (some l)
  let rec loop : Nat → Option String → C Unit
    | 0, _ => throw .diverges
    | f + 1, tname =>
      if tname = some tablename then pure ()
      else do
        let before := (← get).pos.no
        let _ ← Cu.skipto1 "@@@@@"
        let tn ← Cu.nextTableTOUGH2
        if (← get).pos.no = before && tn != some tablename then throw .diverges
        loop f tn
  loop ((← get).pos.rest.length + 2) tname0

def skipToTablePlus (tablename : String) (lastTablename : Option String) (nelt0 : Int) : C Unit := do
  let (tname0, nelt0) ← match lastTablename with
    | none => do
      let _ ← Cu.skipto1 "=====" 0
      Cu.skipToNonblank
      pure (some "element", (0 : Int))
    | some l => pure (some l, nelt0)
  let rec loop : Nat → Option String → Int → Bool → C Unit
    | 0, _, _, _ => throw .diverges
    | f + 1, tname, nelt, inside =>
      if tname = some tablename then pure ()
      else do
        let before := (← get).pos.no
        let keyword := if tname = some "primary" then "_____" else "@@@@@"
        if !(inside && tname = some "primary") then let _ ← Cu.skipto1 keyword 0
        let tn ← Cu.nextTablePlus
        let (tn', nelt') := if tn = some "element" then (some ("element" ++ toString (nelt + 1)), nelt + 1) else (tn, nelt)
        if (← get).pos.no = before && tn' != some tablename then throw .diverges
        loop f tn' nelt' false
  loop ((← get).pos.rest.length + 2) tname0 nelt0 lastTablename.isSome

def skipToTable (tablename : String) (lastTablename : Option String) (nelt : Int) : C Unit := do
  match bound (← read).fam "skip_to_table" with
  | "skip_to_table_AUTOUGH2" => skipToTableAUTOUGH2 tablename
  | "skip_to_table_TOUGHplus" => skipToTablePlus tablename lastTablename nelt
  | "skip_to_table_TOUGH2" => skipToTableTOUGH2 tablename lastTablename
  | _ => throw (.named "AttributeError")

/-! ### reading the selected lines of one table -/

/-- `self.read_table_line(line, ncols, fmt)` as bound by detect_simulator -/
def readTableLineOf (fam : Fam) (t : Table) (line : Str) : Except Exc (List FVal) :=
  -- "read_table_line_AUTOUGH2" or "read_table_line_TOUGH2" (detect_simulator has checked that one of them is bound)
  if bound fam "read_table_line" == "read_table_line_AUTOUGH2" then readTableLineAUTOUGH2 line (t.numpos.headD none)
  else readTableLineTOUGH2 line t.cols.length t.numpos

/-- `vals = self.read_table_line(line, ncols, fmt); valindex = self._table[tname]._col[colname];
    sgn*vals[valindex]` -/
def pickCell (readVals : Str → Except Exc (List FVal)) (colOf : Str → Option Nat) (line col : Str) (rev : Bool) : Except Exc FVal :=
  match readVals line with
  | .error e => .error e
  | .ok vals =>
    match colOf col with
    | none => .error .keyError
    | some vi =>
      match vals[vi]? with
      | none => .error .indexError
      | some v => .ok (if rev then negF v else v)

/-- the loop `for (lineindex, colname, reverse, sel_index) in ts:` of history():
    `index` is the line index of `line`, `rest` the lines not yet read.
    Returns the values appended (with the selection position they belong to) and the lines left. -/
def scanSel (readVals : Str → Except Exc (List FVal)) (colOf : Str → Option Nat) :
    List Sel → Int → Str → List Str → Except Exc (List (Nat × FVal) × List Str)
  | [], _, _, rest => .ok ([], rest)
  | (lineindex, col, rev, si) :: ts, index, line, rest =>
    -- if lineindex > index: skip lineindex - index - 1 lines, then line = readline()
    let p : Str × List Str :=
      if lineindex > index then
        ((rest.drop (lineindex - index - 1).toNat).headD [], (rest.drop (lineindex - index - 1).toNat).tail)
      else (line, rest)
    match pickCell readVals colOf p.1 col rev with
    | .error e => .error e
    | .ok v =>
      match scanSel readVals colOf ts lineindex p.1 p.2 with
      | .error e => .error e
      | .ok (more, rest') => .ok ((si, v) :: more, rest')

/-- one table at one result position -/
def historyTable (tname : String) (ts : List Sel) : C (List (Nat × FVal)) := do
  let t ← Cu.getTable tname
  let expected ← Cu.tableExpectedFloats tname t.cols
  let _ ← Cu.skipToResultsLine expected
  let line ← Cu.readline
  let s ← get
  let (hits, rest') ← Cu.liftE (scanSel (readTableLineOf (← read).fam t) (colIdx t.cols) ts 0 line s.pos.rest)
  set { s with pos := ⟨s.pos.no + (s.pos.rest.length - rest'.length), rest'⟩ }
  return hits

/-- number of (TOUGH+) element tables up to `last` in the file order of the tables present, minus one -/
def neltUpTo (fileTables : List String) (last : String) : C Int := do
  match fileTables.idxOf? last with
  | none => Cu.raise .valueError
  | some i => return (((fileTables.take (i + 1)).filter (fun t => t.startsWith "element")).length : Int) - 1

/-- the loop of history() over the result positions (after `self.rewind()`): the values appended, each with the
    position in the selection it belongs to -/
def historyBody (s0 : Rd) (tsel : List (String × List Sel × List Sel)) (short : Bool) : C (List (Nat × FVal)) := do
  Cu.seek0
  modify fun s => { s with index := -1 }
  let fileTables := fileOrder.filter (fun tn => (s0.tables.lookup tn).isSome)
  let rec tablesAt : List (String × List Sel × List Sel) → Bool → Option String → Int → C (List (Nat × FVal))
    | [], _, _, _ => pure []
    | (tname, ts, tshort) :: more, isShort, last, nelt => do
      let tablename : Str := if isShort then (match tname.toList with | c :: _ => upperChar c :: S "SHORT" | [] => S "SHORT") else tname.toList
      let hits ←
        if !(isShort && !(s0.shortTypes.contains tablename)) then do
          let nelt' ← match last with
            | some l => neltUpTo fileTables l
            | none => pure nelt
          skipToTable tname last nelt'
          historyTable tname (if isShort then tshort else ts)
        else pure []
      let rest ← tablesAt more isShort (some tname) nelt
      pure (hits ++ rest)
  let rec positions : List (Pos × Bool) → Nat → C (List (Nat × FVal))
    | [], _ => pure []
    | (p, isShort) :: more, ipos => do
      Cu.seek p
      modify fun s => { s with index := ipos }
      let hits ← if !(isShort && !short) then tablesAt tsel isShort none (-1) else pure []
      let rest ← positions more (ipos + 1)
      pure (hits ++ rest)
  positions (s0.allpos.toList.zip s0.short.toList) 0

/-- `t2listing.history(selection, short)`.  `none` is Python's `None` (no valid specification);
    otherwise one series per selection item with the flag `len(h) == num_fulltimes` that decides which
    time array is paired with it.  `old_index = self.index … self._index = old_index` brackets the loop. -/
def historyC (items : List Item) (short : Bool) : C (Option (List (Bool × List FVal))) := fun env c =>
  match orderedSelection env items with
  | .error e => .error e
  | .ok tsel =>
    if tsel.isEmpty then .ok (none, c)
    else
      match historyBody env tsel short env c with
      | .error e => .error e
      | .ok (hits, c1) =>
        let nfull := env.fulltimes.size
        .ok (some ((List.range items.length).map fun k =>
              let h := (hits.filter (·.1 = k)).map (·.2)
              (h.length == nfull, h)),
             { c1 with index := c.index })        -- self._index = old_index

/-- `t2listing.history(selection, short)` on the reader: a cursor computation, lifted -/
def history (items : List Item) (short : Bool) : M (Option (List (Bool × List FVal))) := liftC (historyC items short)

/-! ### the navigation instance of the whole-file model -/

/-- the body of `set_index` for a normalised index -/
def loadResult (j : Nat) : M Unit := do
  let s ← get
  match s.fullpos[j]? with
  | none => raise .indexError
  | some p =>
    seek p
    modify fun s => { s with index := j }
    readTables

def fileNav (rd : Rd) : Nav.Nav Rd LErr where
  n := rd.fulltimes.size
  idx := fun s => s.index
  load := fun j s => match (loadResult j).run s with
    | .ok (_, s') => .ok s'
    | .error e => .error e
  indexError := .py .indexError

end Model.Listing
