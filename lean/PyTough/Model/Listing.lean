/-
  Model of the row layer of t2listing.py and of `listingtable`:

    mulgrids.fix_blockname, mulgrids.valid_blockname
    t2listing.start_of_values, key_positions, parse_table_line,
    read_table_line_TOUGH2, read_table_line_AUTOUGH2, listingtable.key_from_line,
    listingtable.__getitem__ / __setitem__

  transcribed statement by statement, quirks included (negative indices wrap, `start` may be
  `None`, every decimal point of the line takes part in the column inference, a blank field reads as 0.0).
  The whole-file reader built on top of it is in Model/ListingFile.lean.
-/
import PyTough.Model.Fortran
import PyTough.Model.ListingText
namespace Model.Listing
open Py Model

/-! ### block names -/

/-- `mulgrids.fix_blockname`:
    `if name[2].isdigit() and name[4].isdigit() and name[3] == ' ': return '0'.join((name[0:3], name[4:5]))` -/
def fixBlockname (name : Str) : Except Exc Str := do
  let c2 ← pyIndex name 2
  if !isDigit c2 then return name
  let c4 ← pyIndex name 4
  if !isDigit c4 then return name
  let c3 ← pyIndex name 3
  if c3 = ' ' then return sliceI name 0 3 ++ ['0'] ++ sliceI name 4 5
  else return name

/-- `ascii_letters + digits + ' ' + punctuation` -/
def nameChar (c : Char) : Bool := isAlphaC c || isDigit c || c = ' ' || isPunct c

/-- `mulgrids.valid_blockname` (the comprehension over `name[0:3]` is complete before `name[3]` is looked at) -/
def validBlockname (name : Str) : Except Exc Bool := do
  if !((sliceI name 0 3).all nameChar) then return false
  let c3 ← pyIndex name 3
  if !(isDigit c3 || c3 = ' ') then return false
  let c4 ← pyIndex name 4
  return isDigit c4

/-! ### slices whose bounds may be `None` -/

def sliceO (s : Str) (lo hi : Option Int) : Str :=
  let a := match lo with | none => 0 | some i => sliceBound s.length i
  let b := match hi with | none => s.length | some i => sliceBound s.length i
  slice s a b

/-! ### start_of_values -/

/-- `while line[pos] != ' ' and pos > 0: pos -= 1` (indices stay in range: `pos ≤ pt - 1`) -/
def backToBlank (line : Str) : Nat → Nat
  | 0 => 0
  | p + 1 => if line[p + 1]? != some ' ' then backToBlank line p else p + 1

/-- `while line[pos] == ' ' and pos > 0: pos -= 1` -/
def backOverBlanks (line : Str) : Nat → Nat
  | 0 => 0
  | p + 1 => if line[p + 1]? == some ' ' then backOverBlanks line p else p + 1

/-- `t2listing.start_of_values(line, columns)`; the result may be Python's `None`. -/
def startOfValues (line : Str) (cols : List Str) : Except Exc (Option Int) := do
  let start : Option Int :=
    match findChar line '.' with
    | none => none
    | some pt =>
      if pt < 2 then none
      else
        let nextpt := (findChar line '.' (pt + 1)).getD line.length
        let s0 := lower (slice line (pt + 1) (nextpt - 1))
        -- if s.split(): s = s.split()[0]   (the sign of the next value is not an exponent sign)
        let s := match splitWs s0 with | [] => s0 | w :: _ => w
        let exponential := s.contains 'e' || s.contains '+' || s.contains '-'
        if exponential then
          match line[pt - 2]? with
          | some c =>
            if c = '-' || c = ' ' then some ((pt : Int) - 2)
            else if isDigit c then some ((pt : Int) - 1)
            else none
          | none => none
        else
          let pos := backOverBlanks line (backToBlank line (pt - 1))
          if pos > 0 then some ((pos : Int) + 1) else none
  match cols with
  | [] => .error .indexError                          -- columns[0]
  | c0 :: _ =>
    if c0 = ['I'] then
      match start with
      | none => .error .typeError                     -- None -= 2
      | some s => return some (s - 2)
    else return start

/-! ### key_positions -/

/-- `while cond(line[pos]): pos -= 1` with Python's wrap-around indexing; ends with an `IndexError`
    once `pos < -len(line)`.  `fuel` bounds the number of iterations (2·len + 2 is always enough). -/
def scanDown (line : Str) (cond : Char → Bool) : Nat → Int → Except Exc Int
  | 0, _ => .error .indexError
  | f + 1, pos => do
    let c ← pyIndex line pos
    if cond c then scanDown line cond f (pos - 1) else return pos

/-- `while not line[pos].isdigit() and pos >= keylength: pos -= 1` -/
def scanToDigit (line : Str) : Nat → Int → Except Exc Int
  | 0, _ => .error .indexError
  | f + 1, pos => do
    let c ← pyIndex line pos
    if !isDigit c && pos ≥ 5 then scanToDigit line f (pos - 1) else return pos

def keyLoop (line : Str) (fuel : Nat) : Nat → Int → List Int → Except Exc (Option (List Int))
  | 0, _, acc => return some acc
  | k + 1, pos, acc => do
    let p1 ← scanToDigit line fuel pos
    let p2 := p1 - 4
    if (← validBlockname (sliceI line p2 (p2 + 5))) then keyLoop line fuel k (p2 - 1) (p2 :: acc)
    else return none

/-- `t2listing.key_positions(line, nkeys)`; `none` is Python's `None`.
    (`keypos.reverse()` is built in: positions are consed while walking leftwards.) -/
def keyPositions (line : Str) (nkeys : Nat) : Except Exc (Option (List Int)) := do
  let fuel := 2 * line.length + 3
  let p0 : Int := (line.length : Int) - 1
  let p1 ← scanDown line (· = ' ') fuel p0
  let p2 ← scanDown line (· != ' ') fuel p1
  keyLoop line fuel nkeys p2 []

/-! ### parse_table_line -/

/-- `exppos = line.find('E', pstart, pend)`: `if exppos > 0: next_start = exppos + 3 + 1` else
    `raise Exception("Unable to parse table line")` -/
def expBoundary (line : Str) (pstart pend : Nat) : Except Exc Nat :=
  match findCharIn line 'E' pstart pend with
  | some e => if e > 0 then .ok (e + 4) else .error .generic
  | none => .error .generic

/-- the start of the next field, from the characters between two consecutive decimal points:
    the first blank, else just behind an exponent `E±dd` -/
def nextStart (line : Str) (pt nextpt : Nat) : Except Exc Nat :=
  match findCharIn line ' ' (pt + 1) (nextpt - 1) with
  | some sp => if sp > 0 then .ok sp else expBoundary line (pt + 1) (nextpt - 1)
  | none => expBoundary line (pt + 1) (nextpt - 1)

/-- the loop over consecutive decimal points -/
def boundaries (line : Str) : List Nat → Except Exc (List Nat)
  | pt :: nextpt :: rest =>
    match nextStart line pt nextpt with
    | .error e => .error e
    | .ok next =>
      match boundaries line (nextpt :: rest) with
      | .error e => .error e
      | .ok more => .ok (next :: more)
  | _ => .ok []

/-- `t2listing.parse_table_line(line, start, columns)` -/
def parseTableLine (line : Str) (start : Option Int) (cols : List Str) : Except Exc (List (Option Int)) := do
  let c0 ← match cols with | [] => Except.error Exc.indexError | c :: _ => pure c
  let extra ←
    if c0 = ['I'] then
      match start with
      | none => Except.error Exc.typeError                  -- None + 1
      | some s =>
        pure (match findFrom line [' '] (sliceBound line.length (s + 1)) with
              | some sp => [some (sp : Int)]
              | none => [])
    else pure []
  let bs ← boundaries line (indicesOf line '.')
  return [start] ++ extra ++ bs.map (fun (b : Nat) => some (Int.ofNat b)) ++ [some (line.length : Int)]

/-! ### reading the values of a row -/

def fvalOf : FOut FVal → FVal
  | .val v => v
  | .blank => .fin false 0 0          -- blank_value = 0.0

def zero : FVal := .fin false 0 0

def fieldsOf (line : Str) : List (Option Int) → List Str
  | a :: b :: rest => sliceO line a b :: fieldsOf line (b :: rest)
  | _ => []

/-- `t2listing.read_table_line_TOUGH2(line, num_columns, fmt)` with `fmt['values'] = numpos` -/
def readTableLineTOUGH2 (line : Str) (ncols : Nat) (numpos : List (Option Int)) : Except Exc (List FVal) := do
  let vals ← (fieldsOf line numpos).mapM (fun s => fvalOf <$> fortranFloat s)
  return vals ++ List.replicate (ncols - (numpos.length - 1)) zero

/-- `t2listing.read_table_line_AUTOUGH2(line, fmt=fmt)`: `line[start:].strip().split()` -/
def readTableLineAUTOUGH2 (line : Str) (start : Option Int) : Except Exc (List FVal) :=
  (splitWs (strip (sliceO line start none))).mapM (fun s => fvalOf <$> fortranFloat s)

/-- a row key: one name, or a tuple of names -/
abbrev Key := List Str

/-- `len(key)` / `key[::-1]` for a key that is a Python string (one name) or a tuple of names -/
def pyLenKey : Key → Nat
  | [s] => s.length
  | k => k.length
def pyRevKey : Key → Key
  | [s] => [s.reverse]
  | k => k.reverse

/-- `listingtable.key_from_line(line)` -/
def keyFromLine (line : Str) (keypos : List Int) : Except Exc Key :=
  keypos.mapM (fun p => fixBlockname (sliceI line p (p + 5)))

/-! ### listingtable -/

def negF : FVal → FVal
  | .fin n m e => .fin (!n) m e
  | .inf n => .inf (!n)
  | .nan => .nan

structure Table where
  cols : List Str
  rows : Array Key
  numKeys : Nat
  allowRev : Bool
  data : Array (Array FVal)
  -- layout recorded when the table was set up
  keyPos : List Int := []
  numpos : List (Option Int) := []
  rowLine : Option (Array Nat) := none
  headerSkip : Nat := 0
  skips : List Nat := []
  longest : Str := []                 -- the line the column boundaries were inferred from (kept for reporting)
  deriving Inhabited

/-- `dict([(r, i) for i, r in enumerate(rows)])[key]`: a repeated name addresses its last row -/
def lastIdx (rows : Array Key) (key : Key) : Option Nat :=
  let rec go : Nat → Option Nat
    | 0 => none
    | i + 1 => if rows[i]? == some key then some i else go i
  go rows.size

def colIdx (cols : List Str) (c : Str) : Option Nat :=
  let rec go : List Str → Nat → Option Nat → Option Nat
    | [], _, acc => acc
    | x :: r, i, acc => go r (i + 1) (if x = c then some i else acc)
  go cols 0 none

def mkTable (cols : List Str) (rows : Array Key) (numKeys : Nat) (allowRev : Bool) : Table :=
  { cols, rows, numKeys, allowRev, data := Array.replicate rows.size (Array.replicate cols.length zero) }

/-- the dictionary `table[i]` / `table[rowname]` returns: its 'key' entry and the (column, value) pairs.
    (`dict(zip(...))`: a repeated column name keeps its last value — see `RowView.get`.) -/
structure RowView where
  key : Key
  cells : List (Str × FVal)
  deriving DecidableEq, Inhabited

/-- `row[col]`: `dict(zip(names, values))` keeps, for a repeated name, the value of its last occurrence -/
def RowView.get (r : RowView) (col : Str) : Option FVal :=
  match colIdx (r.cells.map (·.1)) col with
  | some k => r.cells[k]?.map (·.2)
  | none => none

def Table.rowView (t : Table) (i : Nat) (rev : Bool) : RowView :=
  let vals := (t.data[i]?.getD #[]).toList
  let key := t.rows[i]?.getD []
  if rev then ⟨pyRevKey key, t.cols.zip (vals.map negF)⟩ else ⟨key, t.cols.zip vals⟩

/-- `table[i]` for an integer `i` (negative wraps; `IndexError` outside) -/
def Table.getByIndex (t : Table) (i : Int) : Except Exc RowView :=
  let n : Int := t.rows.size
  let j := if i < 0 then i + n else i
  if j < 0 ∨ j ≥ n then .error .indexError else .ok (t.rowView j.toNat false)

/-- `table[colname]` (tried first for a non-integer key) -/
def Table.getCol (t : Table) (c : Str) : Option (List FVal) :=
  (colIdx t.cols c).map fun k => t.data.toList.map (fun row => row[k]?.getD zero)

/-- `table[key]` for a row key: the row; for a reversed connection key the reversed names and negated values;
    `none` is Python's `None` -/
def Table.getByName (t : Table) (key : Key) : Option RowView :=
  match lastIdx t.rows key with
  | some i => some (t.rowView i false)
  | none =>
    if pyLenKey key > 1 && t.allowRev then
      match lastIdx t.rows (pyRevKey key) with
      | some i => some (t.rowView i true)
      | none => none
    else none

/-- `table[key]` for any key: an integer, a column name, a row name (possibly reversed); `none` is Python's `None` -/
inductive Got where
  | row (r : RowView)
  | col (c : List FVal)
  | none
  deriving DecidableEq, Inhabited

def Table.getItem (t : Table) (key : Sum Int Key) : Except Exc Got :=
  match key with
  | .inl i => Got.row <$> t.getByIndex i
  | .inr k =>
    let asCol : Option (List FVal) := match k with
      | [s] => if t.cols.contains s then t.getCol s else Option.none
      | _ => Option.none
    match asCol with
    | some c => .ok (.col c)
    | Option.none =>
      match t.getByName k with
      | some r => .ok (.row r)
      | Option.none => .ok .none

/-- `self._data[i, :] = value` (numpy: the list must have one value per column, or a single value) -/
def Table.setRowAt (t : Table) (i : Nat) (vals : List FVal) : Except Exc Table :=
  if i ≥ t.rows.size then .error .indexError
  else
    let nc := t.cols.length
    if vals.length = nc then .ok { t with data := t.data.set! i vals.toArray }
    else if vals.length = 1 then .ok { t with data := t.data.set! i (Array.replicate nc (vals.headD zero)) }
    else .error .valueError

/-- `table[key] = value` -/
def Table.setRow (t : Table) (key : Key) (vals : List FVal) : Except Exc Table :=
  match lastIdx t.rows key with
  | none => .error .keyError
  | some i => t.setRowAt i vals

end Model.Listing
