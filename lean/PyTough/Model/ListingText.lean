/-
  Python string operations used by t2listing.py that are not in Py/Str.lean
  (find / in / startswith / split / negative indexing / general slices), over `List Char`, ASCII.
  Mathlib-free: executed by the driver.
-/
import PyTough.Py.Num
namespace Py

/-- `s.startswith(p)` -/
def startsWith : Str → Str → Bool
  | _, [] => true
  | [], _ :: _ => false
  | a :: s, b :: p => a == b && startsWith s p

/-- index of the first occurrence of `p` in `s` at or after offset `k` (the offset is added to the result) -/
def findAux (p : Str) : Str → Nat → Option Nat
  | [], k => if p.isEmpty then some k else none
  | c :: s, k => if startsWith (c :: s) p then some k else findAux p s (k + 1)

/-- `s.find(p)`: `none` stands for -1 -/
def find (s p : Str) : Option Nat := findAux p s 0

/-- `s.find(p, lo)` for `lo ≥ 0` -/
def findFrom (s p : Str) (lo : Nat) : Option Nat :=
  if lo > s.length then none else findAux p (s.drop lo) lo

/-- `p in s` -/
def isIn (p s : Str) : Bool := (find s p).isSome

/-- first index `i` with `lo ≤ i < hi`, `i < len s`, `s[i] = c`:  `s.find(c, lo, hi)` for a single character -/
def findCharIn (s : Str) (c : Char) (lo hi : Nat) : Option Nat :=
  let rec go : Str → Nat → Option Nat
    | [], _ => none
    | x :: r, i => if i ≥ hi then none else if x = c then some i else go r (i + 1)
  if lo ≥ hi then none else go (s.drop lo) lo

/-- `s.find(c, lo)` for a single character -/
def findChar (s : Str) (c : Char) (lo : Nat := 0) : Option Nat := findCharIn s c lo s.length

/-- all indices of `c` in `s` (`[m.start() for m in finditer(escape(c), s)]`) -/
def indicesOf (s : Str) (c : Char) : List Nat :=
  let rec go : Str → Nat → List Nat
    | [], _ => []
    | x :: r, i => if x = c then i :: go r (i + 1) else go r (i + 1)
  go s 0

/-- `s.split()` (runs of whitespace separate; no empty strings) -/
def splitWs (s : Str) : List Str :=
  let rec go : Str → Str → List Str
    | [], cur => if cur.isEmpty then [] else [cur.reverse]
    | c :: r, cur =>
      if isStrWs c then (if cur.isEmpty then go r [] else cur.reverse :: go r [])
      else go r (c :: cur)
  go s []

/-- `s[i]` with Python's negative indices; `IndexError` outside `-len ≤ i < len` -/
def pyIndex (s : Str) (i : Int) : Except Exc Char :=
  let n : Int := s.length
  let j := if i < 0 then i + n else i
  if j < 0 ∨ j ≥ n then .error .indexError
  else match s[j.toNat]? with
    | some c => .ok c
    | none => .error .indexError

/-- clamp a Python slice bound to `0..len` -/
def sliceBound (n : Nat) (i : Int) : Nat :=
  let j := if i < 0 then i + n else i
  if j < 0 then 0 else if j > n then n else j.toNat

/-- `s[lo:hi]` with integer bounds (negative allowed, never raises) -/
def sliceI (s : Str) (lo hi : Int) : Str :=
  slice s (sliceBound s.length lo) (sliceBound s.length hi)

/-- `s[lo:]` -/
def sliceFromI (s : Str) (lo : Int) : Str := s.drop (sliceBound s.length lo)
/-- `s[:hi]` -/
def sliceToI (s : Str) (hi : Int) : Str := s.take (sliceBound s.length hi)

/-- `c.isdigit()` on ASCII -/
abbrev isDigitC := isDigit

def isUpperC (c : Char) : Bool := 'A' ≤ c && c ≤ 'Z'
def isLowerC (c : Char) : Bool := 'a' ≤ c && c ≤ 'z'
def isAlphaC (c : Char) : Bool := isUpperC c || isLowerC c

/-- `string.punctuation` -/
def isPunct (c : Char) : Bool :=
  ('!' ≤ c && c ≤ '/') || (':' ≤ c && c ≤ '@') || ('[' ≤ c && c ≤ '`') || ('{' ≤ c && c ≤ '~')

/-- number of non-overlapping matches of the regular expression `\.[0-9]+` -/
def countDotDigits : Str → Nat
  | [] => 0
  | '.' :: d :: r => if isDigit d then 1 + countDotDigits (d :: r) else countDotDigits (d :: r)
  | _ :: r => countDotDigits r

/-- `s.replace(p, t)` for a general non-empty pattern -/
def replaceStr (p t : Str) (s : Str) : Str :=
  if p.isEmpty then s else
  let rec go : Str → Nat → Str
    | [], _ => []
    | c :: r, 0 => if startsWith (c :: r) p then t ++ go r (p.length - 1) else c :: go r 0
    | _ :: r, k + 1 => go r k
  go s 0

/-- decimal rendering of a natural number / integer, as `str(n)` -/
def natStr (n : Nat) : Str := (Nat.toDigits 10 n)
def intStr (i : Int) : Str := if i < 0 then '-' :: natStr i.natAbs else natStr i.toNat

end Py
