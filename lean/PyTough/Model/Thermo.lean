/-
  Carrier-independent vocabulary of the thermodynamic routines (C14 IAPWS97.py, C15 t2thermo.py).

  The function bodies themselves are *generated* from the Python source on every run
  (`PyTough/Gen/Iapws.lean`, `PyTough/Gen/Ifc67.lean`, translator harness/translate/thermo.py) as
  definitions generic in a carrier `K` with `[ThermoField K]`:

    * `K = Float`  — executable; run by the compiled drivers and compared bit for bit with CPython;
    * `K = ℝ`      — instance in `PyTough/Proofs/ThermoReal.lean`; the property theorems are about it.

  This file is hand written and Mathlib-free.  It contains what the generated code refers to:
  the class, the return-value type, Python's `min`/`max`/`sum`, `np.dot`, and the model of
  `IAPWS97.power_array` (zero-initialised array of length `1 + npos + nneg`, Python negative
  indexing, the multiplication chain, exactly as written; a zero base gives `p[-1] = +inf`).
-/
namespace Model.Thermo

/-- what the translated arithmetic needs from its carrier -/
class ThermoField (K : Type) extends Add K, Sub K, Mul K, Div K, Neg K where
  sqrt : K → K
  exp : K → K
  /-- Python `float ** float` -/
  pow : K → K → K
  /-- a floating-point constant of the source: its bit pattern, and its exact value `num / den` -/
  lit : UInt64 → Int → Nat → K
  /-- Python `float(int)` -/
  ofInt : Int → K
  le : K → K → Bool
  lt : K → K → Bool
  /-- what stands for "Python would have raised here" (NaN over `Float`) -/
  bad : K
  /-- fused multiply-add `a * b + c` with a single rounding (the BLAS kernel behind `np.dot`) -/
  fma : K → K → K → K

export ThermoField (lit ofInt le lt)

/-! ### an exact fused multiply-add on doubles (integer arithmetic on the decoded operands) -/

/-- a finite double as `m * 2^e` (`none` for inf / nan) -/
def decodeF (x : Float) : Option (Int × Int) :=
  let b : Nat := x.toBits.toNat
  let sign : Nat := b / 2 ^ 63
  let ex : Nat := (b / 2 ^ 52) % 2048
  let fr : Nat := b % 2 ^ 52
  if ex == 2047 then none
  else
    let m : Int := if ex == 0 then (fr : Int) else (fr : Int) + 2 ^ 52
    let e : Int := (if ex == 0 then 1 else (ex : Int)) - 1075
    some (if sign == 1 then -m else m, e)

/-- `m * 2^e` rounded to the nearest double, ties to even (`m ≠ 0`) -/
def encodeF (m : Int) (e : Int) : Float :=
  let neg := decide (m < 0)
  let n : Nat := m.natAbs
  let len : Int := (Nat.log2 n : Int) + 1
  -- keep 53 bits, but never go below the subnormal exponent -1074
  let shift : Int := max (len - 53) (-1074 - e)
  let E := e + shift
  let q0 : Nat :=
    if shift > 0 then
      let sh := shift.toNat
      let q := n >>> sh
      let rem := n % 2 ^ sh
      let half := 2 ^ (sh - 1)
      if rem > half || (rem == half && q % 2 == 1) then q + 1 else q
    else n <<< (-shift).toNat
  -- a carry out of the mantissa
  let (q, E) := if q0 == 2 ^ 53 then (2 ^ 52, E + 1) else (q0, E)
  let bits : Nat :=
    if E + 52 > 1023 then 2047 * 2 ^ 52
    else if q < 2 ^ 52 then q                          -- subnormal (E = -1074)
    else (E + 1075).toNat * 2 ^ 52 + (q - 2 ^ 52)
  Float.ofBits ((if neg then 2 ^ 63 + bits else bits).toUInt64)

/-- correctly rounded `a * b + c` -/
def fmaExact (a b c : Float) : Float :=
  match decodeF a, decodeF b, decodeF c with
  | some (ma, ea), some (mb, eb), some (mc, ec) =>
    let mp := ma * mb
    let ep := ea + eb
    let e := min ep ec
    let m := mp * 2 ^ (ep - e).toNat + mc * 2 ^ (ec - e).toNat
    if m == 0 then a * b + c else encodeF m e
  | _, _, _ => a * b + c

instance : ThermoField Float where
  add := Float.add
  sub := Float.sub
  mul := Float.mul
  div := Float.div
  neg := Float.neg
  sqrt := Float.sqrt
  exp := Float.exp
  pow := Float.pow
  lit b _ _ := Float.ofBits b
  ofInt := Float.ofInt
  le a b := decide (a ≤ b)
  lt a b := decide (a < b)
  bad := Float.ofBits 0x7FF8000000000000
  fma := fmaExact

/-- the values a translated function returns: `None`, `(None, None)`, a number, a pair, an integer -/
inductive Ret (K : Type) where
  | none
  | nonePair
  | num (x : K)
  | pair (a b : K)
  | int (i : Int)

variable {K : Type} [ThermoField K]

/-- a call result used as a number (`p > sat(t)`): Python raises `TypeError` on `None`; the
    theorems `*_calls_defined` show that no call site of the translated code can meet that case -/
def Ret.toK : Ret K → K
  | .num x => x
  | _ => ThermoField.bad

/-- Python `min(a, b)`: the first argument unless the second is strictly smaller -/
def pyMin (a b : K) : K := if lt b a then b else a
/-- Python `max(a, b)` -/
def pyMax (a b : K) : K := if lt a b then b else a

/-- Python `sum(list)`: starts from `0` and adds from the left -/
def pySum (xs : List K) : K := xs.foldl (· + ·) (ofInt 0)

def zip3 {α β γ : Type} (a : List α) (b : List β) (c : List γ) : List (α × β × γ) :=
  List.zip a (List.zip b c)

/-- `np.dot(a, b)` of two short vectors: the BLAS kernel accumulates with fused multiply-adds,
    `fma(a₃, b₃, fma(a₂, b₂, fma(a₁, b₁, a₀ b₀)))` (identified by experiment, checked bit for bit on every run) -/
def pyDot (a b : List K) : K :=
  match List.zip a b with
  | [] => ofInt 0
  | p :: r => r.foldl (fun acc q => ThermoField.fma q.1 q.2 acc) (p.1 * p.2)

/-! ### `power_array` -/

/-- position of Python index `k` in an array of length `n` (`n` itself = out of range) -/
def pyPos (n : Nat) (k : Int) : Nat :=
  if 0 ≤ k then k.toNat else if -(n : Int) ≤ k then ((n : Int) + k).toNat else n

def PArr.get (a : List K) (k : Int) : K := a.getD (pyPos a.length k) ThermoField.bad
def PArr.set (a : List K) (k : Int) (v : K) : List K := a.set (pyPos a.length k) v
/-- `a[lo:hi]` for non-negative constant bounds -/
def PArr.slice (a : List K) (lo hi : Nat) : List K := (a.take hi).drop lo

/-- `max(ppowers)` -/
def chainNpos (comb : List (Int × List Int)) : Nat := comb.foldl (fun m c => max m c.1.toNat) 0
/-- `-min(npowers + [-1])` -/
def chainNneg (comb : List (Int × List Int)) : Nat := comb.foldl (fun m c => max m (-c.1).toNat) 1

/-- one entry `c = (target, (o, m, …))`:  `p[target] = p[o]`, then `p[target] *= p[m]` for the rest -/
def chainStep (p : List K) (c : Int × List Int) : List K :=
  match c.2 with
  | [] => p
  | o :: rest =>
    rest.foldl (fun q m => PArr.set q c.1 (PArr.get q c.1 * PArr.get q m)) (PArr.set p c.1 (PArr.get p o))

/-- `IAPWS97.power_array(value, combination)` -/
def powerArray (value : K) (comb : List (Int × List Int)) : List K :=
  let n := 1 + chainNpos comb + chainNneg comb
  -- `p[-1] = 1.0 / value if value != 0. else np.inf`  (`value != 0.` is false exactly for ±0, true for NaN)
  let inv : K := if le value (ofInt 0) && le (ofInt 0) value then ofInt 1 / ofInt 0 else ofInt 1 / value
  let p : List K := List.replicate n (ofInt 0)
  let p := PArr.set (PArr.set (PArr.set p 0 (ofInt 1)) 1 value) (-1) inv
  comb.foldl chainStep p

/-! ### well-formedness of a chain (decidable; checked by `decide` over the generated chains) -/

/-- walking the chain with the list `D` of indices defined so far: every operand is already
    defined, the target is new, in range and equals the sum of its operands -/
def chainWFAux (npos nneg : Nat) : List Int → List (Int × List Int) → Bool
  | _, [] => true
  | D, c :: rest =>
    (!c.2.isEmpty) && c.2.all (fun o => D.contains o) && (c.2.foldl (· + ·) 0 == c.1) && (!D.contains c.1)
      && decide (-(nneg : Int) ≤ c.1) && decide (c.1 ≤ (npos : Int)) && chainWFAux npos nneg (c.1 :: D) rest

def chainWF (comb : List (Int × List Int)) : Bool :=
  decide (1 ≤ chainNpos comb) && chainWFAux (chainNpos comb) (chainNneg comb) [0, 1, -1] comb

/-- the indices that hold a power after `power_array` -/
def chainDefined (comb : List (Int × List Int)) : List Int := [0, 1, -1] ++ comb.map (·.1)

/-- a table row `(multiplier, index)` reads a defined entry unless its multiplier is 0 -/
def readsDefined (comb : List (Int × List Int)) (rows : List (Int × Int)) : Bool :=
  rows.all (fun r => r.1 == 0 || (chainDefined comb).contains r.2)

/-! ### line-protocol helpers for the drivers (doubles travel as 16 hex digits) -/

def hexVal (c : Char) : Nat :=
  if '0' ≤ c ∧ c ≤ '9' then c.toNat - '0'.toNat
  else if 'a' ≤ c ∧ c ≤ 'f' then c.toNat - 'a'.toNat + 10
  else if 'A' ≤ c ∧ c ≤ 'F' then c.toNat - 'A'.toNat + 10 else 0

def floatOfHex (s : String) : Float :=
  Float.ofBits (s.toList.foldl (fun n c => n * 16 + hexVal c) 0).toUInt64

def hexOfFloat (x : Float) : String :=
  let ds := Nat.toDigits 16 x.toBits.toNat
  String.ofList (List.replicate (16 - ds.length) '0' ++ ds)

def showRet : Ret Float → String
  | .none => "none"
  | .nonePair => "nonepair"
  | .num x => "num " ++ hexOfFloat x
  | .pair a b => "pair " ++ hexOfFloat a ++ " " ++ hexOfFloat b
  | .int i => s!"int {i}"

def parseInt (s : String) : Int :=
  match s.toList with
  | '-' :: r => -((String.ofList r).toNat!)
  | _ => s.toNat!

/-- `"2:1,1;-2:-1,-1"` ↦ `[(2,[1,1]), (-2,[-1,-1])]` -/
def parseChain (s : String) : List (Int × List Int) :=
  (s.splitOn ";").filterMap fun item =>
    match item.splitOn ":" with
    | [t, ops] => some (parseInt t, ((ops.splitOn ",").filter (· ≠ "")).map parseInt)
    | _ => none

end Model.Thermo
