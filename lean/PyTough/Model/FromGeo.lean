/-
  Model of the geometry -> TOUGH2 grid conversion (property C04):

    t2grids.py   t2grid.fromgeo / add_blocks / add_atmosphereblocks / add_underground_blocks /
                 add_connections / add_vertical_layer_connections / add_horizontal_layer_connections,
                 add_block, add_connection (replacement semantics)
    mulgrids.py  block_name (+ fix_blockname), column_name, layer_name, setup_block_name_index
                 (layer_column and dmplex orders), setup_block_connection_name_index,
                 block_surface, block_volume, block_centre, connection_params, tilt_vector,
                 column.__init__ (area, orientation flip)
    geometry.py  polygon_area, line_projection

  Arithmetic is exact (core `Rat`).  The three places where the code takes a square root
  (`norm` of an edge, of a projection offset, of a centre-to-centre vector) are kept symbolic:
  a `Surd ⟨c, r⟩` stands for `c * sqrt r`.  The harness compares squares and signs.

  Object identity: a layer is identified by its position in `layerlist`, a column by its value
  (names are unique in a geometry, being dict keys).  The geometry's cached `block_name_list`
  (which `add_underground_blocks` and the atmosphere case of
  `setup_block_connection_name_index` read) is a *field* of the model, `blockNames`; the
  predicate `Fresh` says it is what `setup_block_name_index` would compute now.
-/
import PyTough.Py.Str
namespace Model.FromGeo
open Py

/-! ### plane / space points -/

structure P2 where
  x : Rat
  y : Rat
  deriving DecidableEq, Repr, Inhabited

structure P3 where
  x : Rat
  y : Rat
  z : Rat
  deriving DecidableEq, Repr, Inhabited

def P2.sub (p q : P2) : P2 := ⟨p.x - q.x, p.y - q.y⟩
def P2.add (p q : P2) : P2 := ⟨p.x + q.x, p.y + q.y⟩
def P2.smul (k : Rat) (p : P2) : P2 := ⟨k * p.x, k * p.y⟩
def P2.dot (p q : P2) : Rat := p.x * q.x + p.y * q.y
def P2.normSq (p : P2) : Rat := P2.dot p p
def P3.sub (p q : P3) : P3 := ⟨p.x - q.x, p.y - q.y, p.z - q.z⟩
def P3.dot (p q : P3) : Rat := p.x * q.x + p.y * q.y + p.z * q.z
def P3.normSq (p : P3) : Rat := P3.dot p p

/-- `coef * sqrt rad` -/
structure Surd where
  coef : Rat
  rad : Rat
  deriving DecidableEq, Repr, Inhabited

def Surd.exact (q : Rat) : Surd := ⟨q, 1⟩

/-! ### geometry.py -/

def cross (p q : P2) : Rat := p.x * q.y - q.x * p.y

/-- `[(polygon[j], polygon[(j+1) % n]) for j in range(n)]` -/
def cyclicPairs (poly : List P2) : List (P2 × P2) :=
  match poly with
  | [] => []
  | p0 :: rest => List.zip poly (rest ++ [p0])

/-- `polygon_area`: the polygon is first shifted by its first vertex. -/
def polygonArea (poly : List P2) : Rat :=
  match poly with
  | [] => 0
  | p0 :: _ =>
    let q := poly.map (fun p => P2.sub p p0)
    (1 / 2 : Rat) * ((cyclicPairs q).map (fun pq => cross pq.1 pq.2)).sum

/-- `line_projection(a, [l0, l1])` (no division guard: a degenerate edge gives nan in numpy) -/
def lineProjection (a l0 l1 : P2) : P2 :=
  let d := P2.sub l1 l0
  let xi := P2.dot (P2.sub a l0) d / P2.dot d d
  P2.add l0 (P2.smul xi d)

/-! ### mulgrids.py: the pieces of a geometry -/

structure Layer where
  name : Str
  bottom : Rat
  centre : Rat
  top : Rat
  deriving DecidableEq, Repr, Inhabited

structure Column where
  name : Str
  nodes : List P2
  centre : P2
  surface : Rat
  area : Rat
  deriving DecidableEq, Repr, Inhabited

/-- `column.__init__`: area from `polygon_area`; a clockwise polygon is reversed and the
    area negated. -/
def mkColumn (name : Str) (nodes : List P2) (centre : P2) (surface : Rat) : Column :=
  let a := polygonArea nodes
  if a < 0 then ⟨name, nodes.reverse, centre, surface, -a⟩ else ⟨name, nodes, centre, surface, a⟩

structure Conn where
  col0 : Column
  col1 : Column
  n0 : P2
  n1 : P2
  deriving DecidableEq, Repr, Inhabited

abbrev BlockMap := List (Str × Str)

structure Geo where
  convention : Nat
  atmType : Nat
  atmVolume : Rat
  atmConn : Rat
  /-- 0: `None` / `'layer_column'`; 1: `'dmplex'` -/
  blockOrder : Nat
  /-- `layerlist[0]` (the atmosphere layer) -/
  layer0 : Layer
  /-- `layerlist[1:]` -/
  layers : List Layer
  columns : List Column
  conns : List Conn
  /-- `tilt_vector` -/
  tilt : P3
  /-- `(cos, sin)` of `radians(permeability_angle)` -/
  rot : P2
  /-- the cached `block_name_list` -/
  blockNames : List Str
  deriving Repr, Inhabited

def Geo.layerlist (g : Geo) : List Layer := g.layer0 :: g.layers

/-! ### names -/

/-- `['ATM', ' 0', '  0', 'ATM'][convention]` -/
def atmColName (conv : Nat) : Str :=
  if conv = 1 then [' ', '0'] else if conv = 2 then [' ', ' ', '0'] else ['A', 'T', 'M']

/-- `fix_blockname`; the three subscripts raise `IndexError` on a short name, in Python's
    left-to-right short-circuit order. -/
def fixBlockname (name : Str) : Except Exc Str :=
  match name[2]? with
  | none => .error .indexError
  | some c2 =>
    if !isDigit c2 then .ok name else
    match name[4]? with
    | none => .error .indexError
    | some c4 =>
      if !isDigit c4 then .ok name else
      match name[3]? with
      | none => .error .indexError
      | some c3 => if c3 = ' ' then .ok (slice name 0 3 ++ ['0'] ++ slice name 4 5) else .ok name

def rawName (conv : Nat) (lay col : Str) : Str :=
  if conv = 0 ∨ conv = 3 then slice col 0 3 ++ slice lay 0 2
  else if conv = 1 then slice lay 0 3 ++ slice col 0 2
  else slice lay 0 2 ++ slice col 0 3

def applyMap (m : BlockMap) (n : Str) : Str :=
  match m.lookup n with
  | some v => v
  | none => n

/-- `mulgrid.block_name(layername, colname, blockmap)` -/
def blockName (conv : Nat) (lay col : Str) (m : BlockMap := []) : Except Exc Str :=
  match fixBlockname (rawName conv lay col) with
  | .ok n => .ok (applyMap m n)
  | .error e => .error e

/-- `column_name(blockname)`; `none` is Python's `None` (convention outside 0..3) -/
def columnName (conv : Nat) (b : Str) : Option Str :=
  if conv = 0 then some (slice b 0 3) else if conv = 1 then some (slice b 3 5)
  else if conv = 2 then some (slice b 2 5) else if conv = 3 then some (slice b 0 3) else none

def layerName (conv : Nat) (b : Str) : Option Str :=
  if conv = 0 then some (slice b 3 5) else if conv = 1 then some (slice b 0 3)
  else if conv = 2 then some (slice b 0 2) else if conv = 3 then some (slice b 3 5) else none

/-- `[col for col in columnlist if col.surface > lay.bottom]` -/
def layerCols (g : Geo) (lay : Layer) : List Column :=
  g.columns.filter (fun c => decide (lay.bottom < c.surface))

/-- names of one layer's blocks, in column order -/
def layerBlockNames (conv : Nat) (lay : Layer) : List Column → Except Exc (List Str)
  | [] => .ok []
  | c :: cs =>
    match blockName conv lay.name c.name with
    | .error e => .error e
    | .ok n =>
      match layerBlockNames conv lay cs with
      | .error e => .error e
      | .ok ns => .ok (n :: ns)

/-- `block_name_list_layer_column` -/
def namesLayerColumn (g : Geo) : List Layer → Except Exc (List Str)
  | [] => .ok []
  | l :: ls =>
    match layerBlockNames g.convention l (layerCols g l) with
    | .error e => .error e
    | .ok ns =>
      match namesLayerColumn g ls with
      | .error e => .error e
      | .ok r => .ok (ns ++ r)

/-- `block_name_list_dmplex`: returns the (8-node, 6-node) name lists; any other node count
    raises a plain `Exception`. -/
def namesDmplexLayer (conv : Nat) (lay : Layer) : List Column → Except Exc (List Str × List Str)
  | [] => .ok ([], [])
  | c :: cs =>
    match blockName conv lay.name c.name with
    | .error e => .error e
    | .ok n =>
      if c.nodes.length ≠ 4 ∧ c.nodes.length ≠ 3 then .error .generic else
      match namesDmplexLayer conv lay cs with
      | .error e => .error e
      | .ok (h, w) => if c.nodes.length = 4 then .ok (n :: h, w) else .ok (h, n :: w)

def namesDmplex (g : Geo) : List Layer → Except Exc (List Str × List Str)
  | [] => .ok ([], [])
  | l :: ls =>
    match namesDmplexLayer g.convention l (layerCols g l) with
    | .error e => .error e
    | .ok (h, w) =>
      match namesDmplex g ls with
      | .error e => .error e
      | .ok (h', w') => .ok (h ++ h', w ++ w')

/-- atmosphere part of `setup_block_name_index` -/
def atmNames (g : Geo) : Except Exc (List Str) :=
  if g.atmType = 0 then
    match blockName g.convention g.layer0.name (atmColName g.convention) with
    | .ok n => .ok [n]
    | .error e => .error e
  else if g.atmType = 1 then layerBlockNames g.convention g.layer0 g.columns
  else .ok []

/-- `setup_block_name_index` (the geometry has at least the layer `layer0`) -/
def blockNameList (g : Geo) : Except Exc (List Str) :=
  match atmNames g with
  | .error e => .error e
  | .ok a =>
    if g.blockOrder = 0 then
      match namesLayerColumn g g.layers with
      | .ok u => .ok (a ++ u)
      | .error e => .error e
    else if g.blockOrder = 1 then
      match namesDmplex g g.layers with
      | .ok (h, w) => .ok (a ++ (h ++ w))
      | .error e => .error e
    else .error .generic

/-- the cached name list is up to date -/
def Fresh (g : Geo) : Prop := blockNameList g = .ok g.blockNames

instance (g : Geo) : Decidable (Fresh g) := by unfold Fresh; infer_instance

/-! ### `setup_block_connection_name_index` -/

/-- `(applyMap m a, applyMap m b)` -/
def mapPair (m : BlockMap) (p : Str × Str) : Str × Str := (applyMap m p.1, applyMap m p.2)

/-- body of the vertical loop of `setup_block_connection_name_index` for one column:
    the announced pair, or `none` for `continue`. `first` is `ilay == 0`; `above` is
    `layerlist[ilay]`, the layer just above `lay`. -/
def vertName (g : Geo) (first : Bool) (above lay : Layer) (col : Column) : Except Exc (Option (Str × Str)) :=
  match blockName g.convention lay.name col.name with
  | .error e => .error e
  | .ok this =>
    if first ∨ col.surface ≤ lay.top then
      if g.atmType = 0 then
        match g.blockNames.head? with
        | some a => .ok (some (this, a))
        | none => .error .indexError
      else if g.atmType = 1 then
        match blockName g.convention g.layer0.name col.name with
        | .ok a => .ok (some (this, a))
        | .error e => .error e
      else .ok none
    else
      match blockName g.convention above.name col.name with
      | .ok a => .ok (some (this, a))
      | .error e => .error e

/-- vertical connection names of one layer -/
def vertNames (g : Geo) (first : Bool) (above lay : Layer) : List Column → Except Exc (List (Str × Str))
  | [] => .ok []
  | col :: rest =>
    match vertName g first above lay col with
    | .error e => .error e
    | .ok o =>
      match vertNames g first above lay rest with
      | .error e => .error e
      | .ok r => .ok (o.toList ++ r)

/-- `[con for con in connectionlist if set(con.column).issubset(layercolset)]` -/
def layerConns (g : Geo) (lcols : List Column) : List Conn :=
  g.conns.filter (fun k => lcols.contains k.col0 && lcols.contains k.col1)

/-- `tuple([block_name(lay.name, concol.name) for concol in con.column])` -/
def horizName (conv : Nat) (lay : Layer) (k : Conn) : Except Exc (Str × Str) :=
  match blockName conv lay.name k.col0.name with
  | .error e => .error e
  | .ok a =>
    match blockName conv lay.name k.col1.name with
    | .error e => .error e
    | .ok b => .ok (a, b)

def horizNames (conv : Nat) (lay : Layer) : List Conn → Except Exc (List (Str × Str))
  | [] => .ok []
  | k :: rest =>
    match horizName conv lay k with
    | .error e => .error e
    | .ok p =>
      match horizNames conv lay rest with
      | .error e => .error e
      | .ok r => .ok (p :: r)

def connNamesFrom (g : Geo) (first : Bool) (above : Layer) : List Layer → Except Exc (List (Str × Str))
  | [] => .ok []
  | lay :: ls =>
    let lcols := layerCols g lay
    match vertNames g first above lay lcols with
    | .error e => .error e
    | .ok v =>
      match horizNames g.convention lay (layerConns g lcols) with
      | .error e => .error e
      | .ok h =>
        match connNamesFrom g false lay ls with
        | .error e => .error e
        | .ok r => .ok (v ++ h ++ r)

/-- `setup_block_connection_name_index` -/
def blockConnectionNameList (g : Geo) : Except Exc (List (Str × Str)) :=
  connNamesFrom g true g.layer0 g.layers

/-! ### block geometry -/

/-- `block_surface(lay, col)`; `none` is Python's `None`.  (`layerlist[1]` is read only for a
    layer other than `layerlist[0]`; for a layer foreign to the geometry with no second layer
    Python would raise `IndexError` — never reached from `fromgeo`.) -/
def blockSurface (g : Geo) (lay : Layer) (col : Column) : Option Rat :=
  if lay.name = g.layer0.name then
    if g.atmType = 1 then some lay.top else none
  else
    if col.surface < lay.top then
      if lay.bottom < col.surface then some col.surface else none
    else if col.surface > g.layer0.top then
      match g.layers with
      | l1 :: _ => if lay.name = l1.name then some col.surface else some lay.top
      | [] => some lay.top
    else some lay.top

/-- `block_volume(lay, col)` -/
def blockVolume (g : Geo) (lay : Layer) (col : Column) : Option Rat :=
  if lay.name = g.layer0.name then
    if g.atmType = 0 ∧ col.name = atmColName g.convention then some g.atmVolume
    else if g.atmType = 1 then some g.atmVolume
    else none
  else
    match blockSurface g lay col with
    | some s => some ((s - lay.bottom) * col.area)
    | none => none

/-- `block_centre(lay, col)` -/
def blockCentre (g : Geo) (lay : Layer) (col : Column) : Option P3 :=
  if lay.name = g.layer0.name then
    if g.atmType = 1 then some ⟨col.centre.x, col.centre.y, lay.centre⟩ else none
  else
    if lay.bottom < col.surface ∧ col.surface ≤ lay.top then
      some ⟨col.centre.x, col.centre.y, (1 / 2 : Rat) * (lay.bottom + col.surface)⟩
    else if col.surface ≤ lay.bottom then none
    else some ⟨col.centre.x, col.centre.y, lay.centre⟩

/-- `connection_params(con, lay)`: `([dist0, dist1], area)`; `None - float` is a `TypeError` -/
def connectionParams (g : Geo) (k : Conn) (lay : Layer) : Except Exc (Surd × Surd × Surd) :=
  match blockSurface g lay k.col0, blockSurface g lay k.col1 with
  | some s0, some s1 =>
    let sideSq := P2.normSq (P2.sub k.n0 k.n1)
    let height := min (s0 - lay.bottom) (s1 - lay.bottom)
    let d0 := P2.normSq (P2.sub (lineProjection k.col0.centre k.n0 k.n1) k.col0.centre)
    let d1 := P2.normSq (P2.sub (lineProjection k.col1.centre k.n0 k.n1) k.col1.centre)
    .ok (⟨1, d0⟩, ⟨1, d1⟩, ⟨height, sideSq⟩)
  | _, _ => .error .typeError

/-! ### the TOUGH2 grid -/

structure Block where
  name : Str
  volume : Option Rat
  centre : Option P3
  atm : Bool
  deriving DecidableEq, Repr, Inhabited

structure TConn where
  b0 : Str
  b1 : Str
  dirn : Nat
  d0 : Surd
  d1 : Surd
  area : Surd
  dircos : Surd
  deriving DecidableEq, Repr, Inhabited

def TConn.names (c : TConn) : Str × Str := (c.b0, c.b1)

structure Grid where
  blocks : List Block
  conns : List TConn
  deriving DecidableEq, Repr, Inhabited

/-- `add_block`: a block of the same name is replaced in place, else appended -/
def addBlock (bs : List Block) (b : Block) : List Block :=
  if bs.any (fun x => x.name = b.name) then bs.map (fun x => if x.name = b.name then b else x)
  else bs ++ [b]

/-- `add_connection` -/
def addConn (cs : List TConn) (c : TConn) : List TConn :=
  if cs.any (fun x => x.names = c.names) then cs.map (fun x => if x.names = c.names then c else x)
  else cs ++ [c]

/-- a block's `connection_name` record as `add_connection` fills it (`block.connection_name.add(
    conname)` for both blocks of every connection added): the keys of the connections that mention
    the block (a set; listed in connection order) -/
def connRecord (cs : List TConn) (b : Str) : List (Str × Str) :=
  (cs.filter (fun c => c.b0 = b || c.b1 = b)).map TConn.names

/-- `self.block[name]` -/
def findBlock (bs : List Block) (name : Str) : Except Exc Block :=
  match bs.find? (fun b => b.name = name) with
  | some b => .ok b
  | none => .error .keyError

/-- `geo.layer[name]` / `geo.column[name]` -/
def findLayer (g : Geo) (name : Option Str) : Except Exc Layer :=
  match name with
  | none => .error .keyError
  | some n =>
    match g.layerlist.find? (fun l => l.name = n) with
    | some l => .ok l
    | none => .error .keyError

def findColumn (g : Geo) (name : Option Str) : Except Exc Column :=
  match name with
  | none => .error .keyError
  | some n =>
    match g.columns.find? (fun c => c.name = n) with
    | some c => .ok c
    | none => .error .keyError

/-- `add_atmosphereblocks`, type 1 loop -/
def addAtmColumns (g : Geo) (m : BlockMap) (bs : List Block) : List Column → Except Exc (List Block)
  | [] => .ok bs
  | c :: cs =>
    match blockName g.convention g.layer0.name c.name m with
    | .error e => .error e
    | .ok n => addAtmColumns g m (addBlock bs ⟨n, some g.atmVolume, blockCentre g g.layer0 c, true⟩) cs

def addAtmosphereBlocks (g : Geo) (m : BlockMap) (bs : List Block) : Except Exc (List Block) :=
  if g.atmType = 0 then
    match blockName g.convention g.layer0.name (atmColName g.convention) m with
    | .error e => .error e
    | .ok n => .ok (addBlock bs ⟨n, some g.atmVolume, none, true⟩)
  else if g.atmType = 1 then addAtmColumns g m bs g.columns
  else .ok bs

/-- `[1, num_columns, 0][atmosphere_type]` -/
def numAtmBlocks (g : Geo) : Except Exc Nat :=
  if g.atmType = 0 then .ok 1 else if g.atmType = 1 then .ok g.columns.length
  else if g.atmType = 2 then .ok 0 else .error .indexError

/-- `add_underground_blocks`, over the slice of the cached name list -/
def addUnderground (g : Geo) (m : BlockMap) (bs : List Block) : List Str → Except Exc (List Block)
  | [] => .ok bs
  | nm :: rest =>
    match findLayer g (layerName g.convention nm) with
    | .error e => .error e
    | .ok lay =>
      match findColumn g (columnName g.convention nm) with
      | .error e => .error e
      | .ok col =>
        addUnderground g m (addBlock bs ⟨applyMap m nm, blockVolume g lay col, blockCentre g lay col, false⟩) rest

def addBlocks (g : Geo) (m : BlockMap) : Except Exc (List Block) :=
  match addAtmosphereBlocks g m [] with
  | .error e => .error e
  | .ok bs =>
    match numAtmBlocks g with
    | .error e => .error e
    | .ok n => addUnderground g m bs (g.blockNames.drop n)

/-- `blk.centre[2]` -/
def centreZ (b : Block) : Except Exc Rat :=
  match b.centre with
  | some c => .ok c.z
  | none => .error .typeError

/-- body of the loop of `add_vertical_layer_connections` for one column: the connection
    built, or `none` for `continue`. `first` is `layerlist.index(lay) == 1`; `above` is
    `layerlist[ilayer - 1]`. -/
def vertConn (g : Geo) (m : BlockMap) (bs : List Block) (first : Bool) (above lay : Layer)
    (col : Column) : Except Exc (Option TConn) :=
  match blockName g.convention lay.name col.name m with
  | .error e => .error e
  | .ok thisName =>
  match findBlock bs thisName with
  | .error e => .error e
  | .ok thisblk =>
    if first ∨ col.surface ≤ lay.top then
      match centreZ thisblk with
      | .error e => .error e
      | .ok cz =>
        let belowdist := col.surface - cz
        if g.atmType = 0 then
          match bs.head? with
          | none => .error .indexError
          | some ab =>
            .ok (some ⟨thisblk.name, ab.name, 3, .exact belowdist, .exact g.atmConn, .exact col.area, .exact g.tilt.z⟩)
        else if g.atmType = 1 then
          match blockName g.convention g.layer0.name col.name m with
          | .error e => .error e
          | .ok an =>
          match findBlock bs an with
          | .error e => .error e
          | .ok ab =>
            .ok (some ⟨thisblk.name, ab.name, 3, .exact belowdist, .exact g.atmConn, .exact col.area, .exact g.tilt.z⟩)
        else .ok none
    else
      match blockName g.convention above.name col.name m with
      | .error e => .error e
      | .ok an =>
      match findBlock bs an with
      | .error e => .error e
      | .ok ab =>
      match centreZ ab with
      | .error e => .error e
      | .ok az =>
        .ok (some ⟨thisblk.name, ab.name, 3, .exact (lay.top - lay.centre), .exact (az - above.bottom),
                   .exact col.area, .exact g.tilt.z⟩)

/-- `add_vertical_layer_connections` -/
def addVertical (g : Geo) (m : BlockMap) (bs : List Block) (first : Bool) (above lay : Layer)
    (cs : List TConn) : List Column → Except Exc (List TConn)
  | [] => .ok cs
  | col :: rest =>
    match vertConn g m bs first above lay col with
    | .error e => .error e
    | .ok none => addVertical g m bs first above lay cs rest
    | .ok (some c) => addVertical g m bs first above lay (addConn cs c) rest

def absRat (q : Rat) : Rat := if q < 0 then -q else q

/-- `np.argmax(abs(np.dot(rotation, d[0:2]))) + 1` with `rotation = [[c, s], [-s, c]]` -/
def permDirection (rot : P2) (d : P3) : Nat :=
  let a := absRat (rot.x * d.x + rot.y * d.y)
  let b := absRat (-rot.y * d.x + rot.x * d.y)
  if a < b then 2 else 1

def centre3 (b : Block) : Except Exc P3 :=
  match b.centre with
  | some c => .ok c
  | none => .error .typeError

/-- body of the loop of `add_horizontal_layer_connections` for one geometry connection -/
def horizConn (g : Geo) (m : BlockMap) (bs : List Block) (lay : Layer) (k : Conn) : Except Exc TConn :=
  match blockName g.convention lay.name k.col0.name m with
  | .error e => .error e
  | .ok n0 =>
  match findBlock bs n0 with
  | .error e => .error e
  | .ok b0 =>
  match blockName g.convention lay.name k.col1.name m with
  | .error e => .error e
  | .ok n1 =>
  match findBlock bs n1 with
  | .error e => .error e
  | .ok b1 =>
  match connectionParams g k lay with
  | .error e => .error e
  | .ok (d0, d1, area) =>
  match centre3 b1 with
  | .error e => .error e
  | .ok c1 =>
  match centre3 b0 with
  | .error e => .error e
  | .ok c0 =>
    let d := P3.sub c1 c0
    .ok ⟨b0.name, b1.name, permDirection g.rot d, d0, d1, area, ⟨P3.dot d g.tilt, 1 / P3.normSq d⟩⟩

/-- `add_horizontal_layer_connections` over the filtered connection list -/
def addHorizontal (g : Geo) (m : BlockMap) (bs : List Block) (lay : Layer)
    (cs : List TConn) : List Conn → Except Exc (List TConn)
  | [] => .ok cs
  | k :: rest =>
    match horizConn g m bs lay k with
    | .error e => .error e
    | .ok c => addHorizontal g m bs lay (addConn cs c) rest

/-- `add_connections`, over `layerlist[1:]` -/
def addConnsFrom (g : Geo) (m : BlockMap) (bs : List Block) (first : Bool) (above : Layer)
    (cs : List TConn) : List Layer → Except Exc (List TConn)
  | [] => .ok cs
  | lay :: ls =>
    let lcols := layerCols g lay
    match addVertical g m bs first above lay cs lcols with
    | .error e => .error e
    | .ok cs1 =>
      match addHorizontal g m bs lay cs1 (layerConns g lcols) with
      | .error e => .error e
      | .ok cs2 => addConnsFrom g m bs false lay cs2 ls

/-- `t2grid().fromgeo(geo, blockmap)` -/
def fromgeo (g : Geo) (m : BlockMap := []) : Except Exc Grid :=
  match addBlocks g m with
  | .error e => .error e
  | .ok bs =>
    match addConnsFrom g m bs true g.layer0 [] g.layers with
    | .error e => .error e
    | .ok cs => .ok ⟨bs, cs⟩

/-! ### well-formedness predicates (theorem hypotheses; decidable, evaluated by the driver on
    every explored case) and specification-side sums -/

/-- layer tops chain downwards from `t`, every layer has positive thickness
    (`identify_layer_tops`) -/
def chainOk : Rat → List Layer → Bool
  | _, [] => true
  | t, l :: ls => decide (l.top = t) && decide (l.bottom < l.top) && chainOk l.bottom ls

/-- the layer structure a geometry built by the library has: the atmosphere layer is flat,
    tops chain, layer names are distinct (they are dict keys) -/
def LayersWF (g : Geo) : Prop :=
  g.layer0.top = g.layer0.bottom ∧ chainOk g.layer0.bottom g.layers = true ∧
  (g.layerlist.map (·.name)).Nodup

instance (g : Geo) : Decidable (LayersWF g) := by unfold LayersWF; infer_instance

/-- the geometry's connection registry has one entry per ordered column pair (the `connection`
    dict is keyed by the pair of column names), and a connection joins two different columns -/
def ConnsWF (g : Geo) : Prop :=
  (g.conns.map (fun k => (k.col0, k.col1))).Nodup ∧ ∀ k ∈ g.conns, k.col0 ≠ k.col1

instance (g : Geo) : Decidable (ConnsWF g) := by unfold ConnsWF; infer_instance

/-- bottom of the lowest layer -/
def lastBottom : Rat → List Layer → Rat
  | t, [] => t
  | _, l :: ls => lastBottom l.bottom ls

def lowestBottom (g : Geo) : Rat := lastBottom g.layer0.bottom g.layers

/-- the underground layers in which column `col` has a block -/
def colLayers (g : Geo) (col : Column) : List Layer :=
  g.layers.filter (fun l => decide (l.bottom < col.surface))

/-- sum of the volumes of the blocks of one column -/
def columnVolume (g : Geo) (col : Column) : Rat :=
  ((colLayers g col).map (fun l => (blockVolume g l col).getD 0)).sum

/-- sum of the volumes of all announced underground blocks, layer by layer -/
def totalVolume (g : Geo) : Rat :=
  (g.layers.map (fun l => ((layerCols g l).map (fun c => (blockVolume g l c).getD 0)).sum)).sum

/-- top elevation of the block of layer `lay` in column `col`, as the property states it:
    the column surface in the column's top block (the first underground layer, or the layer
    the surface cuts), the layer top otherwise -/
def blockTop (g : Geo) (lay : Layer) (col : Column) : Rat :=
  if g.layers.head? = some lay ∨ col.surface < lay.top then col.surface else lay.top

/-- every (layer, column) name parses back to its layer and column (`geo.layer[layer_name(n)]`,
    `geo.column[column_name(n)]`) -/
def parseOk (g : Geo) : Bool :=
  g.layers.all fun lay => g.columns.all fun col =>
    match blockName g.convention lay.name col.name with
    | .ok nm => decide (findLayer g (layerName g.convention nm) = .ok lay) &&
                decide (findColumn g (columnName g.convention nm) = .ok col)
    | .error _ => false

/-! ### `tilt_vector` -/

/-- Newton iteration for the integer square root, structurally recursive on the fuel -/
def isqrtGo (n : Nat) : Nat → Nat → Nat
  | 0, x => x
  | fuel + 1, x =>
    let y := (x + n / x) / 2
    if y < x then isqrtGo n fuel y else x

/-- integer square root candidate (checked by squaring wherever it is used) -/
def isqrt (n : Nat) : Nat := if n = 0 then 0 else isqrtGo n 64 (2 ^ (n.log2 / 2 + 1))

/-- exact square root of a rational, when it has one (sound by construction: the candidate
    is squared and compared) -/
def ratSqrt? (q : Rat) : Option Rat :=
  if q < 0 then none else
    let n := q.num.toNat
    let sn := isqrt n
    let sd := isqrt q.den
    if sn * sn = n ∧ sd * sd = q.den then some (mkRat sn sd) else none

/-- `sqrt(1. - min(x*x, 1.))` -/
def cosFromSin? (x : Rat) : Option Rat := ratSqrt? (1 - min (x * x) 1)

/-- `get_tilt_vector`; `none` when a square root is irrational (outside the exact model).
    `gdcx`, `gdcy` are `None` or numbers. -/
def tiltVector? (gdcx gdcy : Option Rat) : Option P3 :=
  let gx := gdcx.getD 0
  let gy := gdcy.getD 0
  let sintheta := -gy
  match cosFromSin? sintheta with
  | none => none
  | some costheta =>
    if costheta = 0 then some ⟨0, -sintheta, 0⟩      -- ZeroDivisionError branch
    else
      let sinphi := gx / costheta
      match cosFromSin? sinphi with
      | none => none
      | some cosphi => some ⟨costheta * sinphi, -sintheta, -costheta * cosphi⟩

end Model.FromGeo
