/-
  Model of `fixed_format_file.py`'s record layer (shared by C01, C02, C03, C13):

    preprocess_specification   (line_spec, spec_width from the '10.4e'-style specs)
    parse_string               (column slicing + conversion functions)
    write_values_to_string     ('%' formatting, blanks for None / 'x', fit_value guard)

  Python floats reach the model as their exact rational value, so `fmtE`/`fmtF`
  reproduce CPython's correctly rounded `'%w.pe' % x` / `'%w.pf' % x`
  (round-half-even on the exact value).  Mathlib-free (executed by drivers).
-/
import PyTough.Py.Num
import PyTough.Model.Fortran
namespace Model
open Py

/-- a Python value handed to `write_values_to_string` -/
inductive Val where
  | none
  | int (i : Int)
  | real (r : Rat)            -- finite float, exact value (≠ -0.0)
  | negZero                   -- the float -0.0
  | inf (neg : Bool)
  | nan
  | str (s : Str)
  deriving Repr, DecidableEq

/-- a value returned by `parse_string` -/
inductive PVal where
  | none
  | int (i : Int)
  | flt (v : FVal)            -- exact decimal written (binary rounding outside the model)
  | str (s : Str)
  deriving Repr, DecidableEq

/-- one field specification such as `'10.4e'`, `'5d'`, `'-4s'`, `'5x'` -/
structure FieldSpec where
  raw : Str                   -- the text before the type letter, e.g. "10.4" (key of spec_width)
  width : Nat                 -- abs(int(raw.partition('.')[0]))
  left : Bool                 -- '-' flag (left justified)
  prec : Option Nat           -- digits after '.', if any
  typ : Char
  deriving Repr, DecidableEq

/-- `fmt, typ = spec[:-1], spec[-1]; w = abs(int(fmt.partition('.')[0]))` -/
def parseSpec (spec : Str) : Except Exc FieldSpec :=
  match spec.reverse with
  | [] => .error .indexError
  | typ :: revfmt =>
    let fmt := revfmt.reverse
    let wpart := fmt.takeWhile (· != '.')
    let rest := fmt.dropWhile (· != '.')
    match pyInt wpart with
    | .error e => .error e
    | .ok w =>
      let prec : Option Nat := match rest with
        | _ :: p => (match pyInt p with | .ok (Int.ofNat n) => some n | _ => Option.none)
        | [] => Option.none
      .ok { raw := fmt, width := w.natAbs, left := decide (w < 0), prec := prec, typ := typ }

/-- `line_spec[section]`: ((start, end), typ) per field -/
def lineSpec (fs : List FieldSpec) : List ((Nat × Nat) × Char) :=
  let rec go (pos : Nat) : List FieldSpec → List ((Nat × Nat) × Char)
    | [] => []
    | f :: r => ((pos, pos + f.width), f.typ) :: go (pos + f.width) r
  go 0 fs

def parseSpecs (specs : List Str) : Except Exc (List FieldSpec) := specs.mapM parseSpec

/-! ### reading -/

/-- which conversion-function dictionary the file object uses -/
inductive ReadFn where
  | default      -- value_error_none(float) / value_error_none(int) / rstrip('\n')
  | fortran      -- fortran_float / fortran_int with blank_value None
  deriving DecidableEq, Repr

def rstripNewline (s : Str) : Str := rstripBy (· == '\n') s

def readField (rf : ReadFn) (typ : Char) (s : Str) : Except Exc PVal :=
  if typ = 's' then .ok (.str (rstripNewline s))
  else if typ = 'x' then .ok .none
  else if typ = 'd' then
    match rf with
    | .default => (match pyInt s with | .ok i => .ok (.int i) | .error .valueError => .ok .none | .error e => .error e)
    | .fortran => (match fortranInt s with
        | .ok (.val (some i)) => .ok (.int i) | .ok (.val Option.none) => .ok .none
        | .ok .blank => .ok .none | .error e => .error e)
  else if typ = 'f' || typ = 'e' || typ = 'g' then
    match rf with
    | .default => (match pyFloat s with | .ok v => .ok (.flt v) | .error .valueError => .ok .none | .error e => .error e)
    | .fortran => (match fortranFloat s with
        | .ok (.val v) => .ok (.flt v) | .ok .blank => .ok .none | .error e => .error e)
  else .error .keyError        -- read_function[typ]

/-- `parse_string(line, linetype)` -/
def parseString (rf : ReadFn) (fs : List FieldSpec) (line : Str) : Except Exc (List PVal) :=
  (lineSpec fs).mapM fun ((i1, i2), typ) => readField rf typ (slice line i1 i2)

/-! ### `%` formatting on exact values -/

def natDigits (n : Nat) : Str := Nat.toDigits 10 n

def pad (left : Bool) (w : Nat) (s : Str) : Str := if left then ljust s w else rjust s w

/-- round-half-even of num/den (den > 0) -/
def roundHalfEven (num den : Nat) : Nat :=
  let q := num / den
  let r := num % den
  if 2 * r < den then q else if 2 * r > den then q + 1 else if q % 2 = 0 then q else q + 1

/-- smallest k ≥ start with n * 10^k ≥ d (bounded by fuel) -/
def log10Search (n d : Nat) : Nat → Nat → Nat
  | 0, k => k
  | fuel + 1, k => if n * 10 ^ k ≥ d then k else log10Search n d fuel (k + 1)

/-- floor(log10 (n/d)) for n, d > 0 -/
def log10Floor (n d : Nat) : Int :=
  if n ≥ d then ((natDigits (n / d)).length : Int) - 1
  else Int.neg (log10Search n d ((natDigits d).length + 1) 1)

/-- zero-padded decimal digits of `m` to at least `k` characters -/
def zfill (k : Nat) (m : Nat) : Str :=
  let ds := natDigits m
  List.replicate (k - ds.length) '0' ++ ds

/-- `(m, e)`: the `p+1` mantissa digits (as a number) and the decimal exponent printed by
    `'%.{p}e' % (n/d)`: `m·10^(e-p)` is `n/d` rounded half-even to `p+1` significant digits
    (the carry `9.9996 → 1.000e+01` included) -/
def fmtEParts (p : Nat) (n d : Nat) : Nat × Int :=
  if n = 0 then (0, 0)
  else
    let e0 := log10Floor n d
    let sh : Int := p - e0
    let m0 := if sh ≥ 0 then roundHalfEven (n * 10 ^ sh.toNat) d else roundHalfEven n (d * 10 ^ (-sh).toNat)
    if m0 ≥ 10 ^ (p + 1) then (m0 / 10, e0 + 1) else (m0, e0)

/-- body (without sign and padding) of `'%.{p}e' % |x|` for x = n/d ≥ 0 -/
def fmtEBody (p : Nat) (n d : Nat) : Str :=
  let (m, e) : Nat × Int := fmtEParts p n d
  let ds := zfill (p + 1) m
  let mant := match ds with
    | [] => []
    | c :: r => if p = 0 then [c] else c :: '.' :: r
  mant ++ ['e', (if e < 0 then '-' else '+')] ++ zfill 2 e.natAbs

/-- body of `'%.{p}f' % |x|` for x = n/d ≥ 0 -/
def fmtFBody (p : Nat) (n d : Nat) : Str :=
  let m := roundHalfEven (n * 10 ^ p) d
  let ip := natDigits (m / 10 ^ p)
  if p = 0 then ip else ip ++ '.' :: zfill p (m % 10 ^ p)

def ratAbsNum (r : Rat) : Nat := r.num.natAbs

/-- `('%' + spec) % val` : formatted text, or the exception Python raises -/
def fmtVal (f : FieldSpec) (v : Val) : Except Exc Str :=
  let p := f.prec.getD 6
  let signed (neg : Bool) (body : Str) : Str := pad f.left f.width ((if neg then ['-'] else []) ++ body)
  if f.typ = 's' then
    match v with
    | .str s => .ok (pad f.left f.width (match f.prec with | some k => s.take k | Option.none => s))
    | .int i => .ok (pad f.left f.width (toString i).toList)
    | _ => .error .generic     -- str(float): repr is outside the model; harness never sends it
  else if f.typ = 'd' then
    match v with
    | .int i => .ok (signed (decide (i < 0)) (natDigits i.natAbs))
    | .real r => -- '%d' truncates a float towards zero
      let t := r.num.natAbs / r.den
      .ok (signed (decide (r < 0) && decide (t ≠ 0)) (natDigits t))
    | .negZero => .ok (signed false ['0'])
    | .str _ => .error .typeError
    | .inf _ => .error .generic  -- OverflowError
    | .nan => .error .valueError
    | .none => .error .typeError
  else if f.typ = 'e' || f.typ = 'f' then
    let body := fun (n d : Nat) => if f.typ = 'e' then fmtEBody p n d else fmtFBody p n d
    match v with
    | .int i => .ok (signed (decide (i < 0)) (body i.natAbs 1))
    | .real r => .ok (signed (decide (r < 0)) (body r.num.natAbs r.den))
    | .negZero => .ok (signed true (body 0 1))
    | .inf neg => .ok (signed neg ['i', 'n', 'f'])
    | .nan => .ok (signed false ['n', 'a', 'n'])
    | .str _ => .error .typeError
    | .none => .error .typeError
  else .error .valueError      -- unsupported format character ('g' and 'x' are not formatted)

/-- `fit_value(val, f, width)`: reduced precision for floats, else ValueError -/
def fitValue (f : FieldSpec) (v : Val) : Except Exc Str :=
  let rec go (fuel : Nat) (p : Nat) : Except Exc Str :=
    match fuel with
    | 0 => .error .valueError
    | fuel + 1 =>
      match fmtVal { f with left := false, prec := some p } v with
      | .error e => .error e
      | .ok s => if s.length ≤ f.width then .ok s else
          if p = 0 then .error .valueError else go fuel (p - 1)
  if (f.typ = 'e' || f.typ = 'f' || f.typ = 'g') && f.raw.contains '.' then
    match f.prec with
    | some (p + 1) => go (p + 1) p
    | _ => .error .valueError
  else .error .valueError

/-- one field of `write_values_to_string` -/
def writeField (f : FieldSpec) (v : Val) : Except Exc Str :=
  if v ≠ .none ∧ f.typ ≠ 'x' then
    match fmtVal f v with
    | .error e => .error e
    | .ok s => if s.length > f.width then fitValue f v else .ok s
  else .ok (List.replicate f.width ' ')

/-- `write_values_to_string(vals, linetype)`: `zip` truncates to the shorter list -/
def writeValues (fs : List FieldSpec) (vals : List Val) : Except Exc Str := do
  let strs ← (vals.zip fs).mapM fun (v, f) => writeField f v
  pure strs.flatten

end Model
