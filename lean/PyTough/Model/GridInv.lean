/-
  The consistency invariant of a `t2grid` (property C08), the per-operation preconditions under
  which the current code preserves it, and the three situations in which it does not
  (known findings F1–F3).  Mathlib-free (the driver evaluates `checkInv` and `preClass` on
  every explored state).
-/
import PyTough.Model.Grid
namespace Model.Grid
open Py World

/-- **The invariant.**  Objects are heap ids (Python identity).
    * `*_lt`      : every listed object exists;
    * `*_nodup`   : no object is listed twice;
    * `*d_sound`  : a dictionary entry points to a listed object whose *current* name is the key;
    * `*d_complete`: every listed object is found under its current name
                    (so names are unique and list and dictionary describe the same objects);
    * `c_ends`    : a connection joins two different blocks of the grid;
    * `conn_iff`  : a block's `connection_name` is exactly the set of keys of the connections
                    that mention it;
    * `b_rock`    : a block's rock type is a registered object. -/
structure Inv (w : World) : Prop where
  rl_lt : ∀ r ∈ w.rocktypelist, r < w.rocks.length
  bl_lt : ∀ b ∈ w.blocklist, b < w.blks.length
  cl_lt : ∀ c ∈ w.connectionlist, c < w.cons.length
  rl_nodup : w.rocktypelist.Nodup
  rd_sound : ∀ n r, dget w.rocktype n = some r → r ∈ w.rocktypelist ∧ w.rname r = n
  rd_complete : ∀ r ∈ w.rocktypelist, dget w.rocktype (w.rname r) = some r
  bl_nodup : w.blocklist.Nodup
  bd_sound : ∀ n b, dget w.block n = some b → b ∈ w.blocklist ∧ w.bname b = n
  bd_complete : ∀ b ∈ w.blocklist, dget w.block (w.bname b) = some b
  b_rock : ∀ b ∈ w.blocklist, (w.bk b).rock ∈ w.rocktypelist
  cl_nodup : w.connectionlist.Nodup
  cd_sound : ∀ k c, dget w.connection k = some c → c ∈ w.connectionlist ∧ w.ckey c = k
  cd_complete : ∀ c ∈ w.connectionlist, dget w.connection (w.ckey c) = some c
  c_ends : ∀ c ∈ w.connectionlist,
    (w.cn c).b0 ∈ w.blocklist ∧ (w.cn c).b1 ∈ w.blocklist ∧ (w.cn c).b0 ≠ (w.cn c).b1
  conn_nodup : ∀ b ∈ w.blocklist, (w.bk b).conn.Nodup
  conn_iff : ∀ b ∈ w.blocklist, ∀ k, k ∈ (w.bk b).conn ↔
    ∃ c ∈ w.connectionlist, w.ckey c = k ∧ ((w.cn c).b0 = b ∨ (w.cn c).b1 = b)

/-- executable version of `Inv` (what the driver prints as `I=`) -/
def checkInv (w : World) : Bool :=
  w.rocktypelist.all (fun r => r < w.rocks.length) &&
  w.blocklist.all (fun b => b < w.blks.length) &&
  w.connectionlist.all (fun c => c < w.cons.length) &&
  decide w.rocktypelist.Nodup && decide w.blocklist.Nodup && decide w.connectionlist.Nodup &&
  w.rocktype.all (fun p => dget w.rocktype p.1 != some p.2 || (decide (p.2 ∈ w.rocktypelist) && w.rname p.2 == p.1)) &&
  w.rocktypelist.all (fun r => dget w.rocktype (w.rname r) == some r) &&
  w.block.all (fun p => dget w.block p.1 != some p.2 || (decide (p.2 ∈ w.blocklist) && w.bname p.2 == p.1)) &&
  w.blocklist.all (fun b => dget w.block (w.bname b) == some b) &&
  w.blocklist.all (fun b => decide ((w.bk b).rock ∈ w.rocktypelist)) &&
  w.connection.all (fun p => dget w.connection p.1 != some p.2 || (decide (p.2 ∈ w.connectionlist) && w.ckey p.2 == p.1)) &&
  w.connectionlist.all (fun c => dget w.connection (w.ckey c) == some c) &&
  w.connectionlist.all (fun c => decide ((w.cn c).b0 ∈ w.blocklist) && decide ((w.cn c).b1 ∈ w.blocklist) &&
                                 (w.cn c).b0 != (w.cn c).b1) &&
  w.blocklist.all (fun b => decide (w.bk b).conn.Nodup) &&
  w.blocklist.all (fun b =>
    let want := (w.connectionlist.filter fun c => (w.cn c).b0 == b || (w.cn c).b1 == b).map w.ckey
    (w.bk b).conn.all (fun k => decide (k ∈ want)) && want.all (fun k => decide (k ∈ (w.bk b).conn)))

/-! ### preconditions -/

/-- some block of the grid references rocktype object `r` -/
def rockInUse (w : World) (r : Nat) : Bool := w.blocklist.any fun b => (w.bk b).rock == r

/-- the rocktype registered under `nm` (if any) is referenced by a block of the grid -/
def rockNameInUse (w : World) (nm : Name) : Bool :=
  match dget w.rocktype nm with
  | none => false
  | some r => rockInUse w r

/-- the block registered under `nm` (if any) has connections -/
def blockNameConnected (w : World) (nm : Name) : Bool :=
  match dget w.block nm with
  | none => false
  | some b => !(w.bk b).conn.isEmpty

/-- the connection a name pair designates in `reorder`: as listed, else reversed -/
def resolveCon (w : World) (k : CName) : Option Nat :=
  match dget w.connection k with
  | some c => some c
  | none => dget w.connection (k.2, k.1)

/-- the map that `rename_blocks` really applies (after `fix_block_mapping`, when that succeeds) -/
def effectiveMap (m : Dict Name Name) (fix : Bool) : Option (Dict Name Name) :=
  if fix then
    match fixBlockMapping m with
    | .ok m1 => some m1
    | .error _ => none
  else some m

/-- a `GridSpec` describes a well-formed second grid: distinct rock and block names, every block's
    rock type among the spec's, connections between two different existing blocks -/
def specOK (s : GridSpec) : Bool :=
  decide (s.rocks.map (·.1)).Nodup && decide (s.blocks.map (·.1)).Nodup &&
  s.blocks.all (fun b => decide (b.2.1 ∈ s.rocks.map (·.1))) &&
  s.cons.all (fun c => decide (c.1 < s.blocks.length) && decide (c.2.1 < s.blocks.length) && c.1 != c.2.1)

/-- rock names of the spec that its own blocks use -/
def specRockUsed (s : GridSpec) (nm : Name) : Bool := s.blocks.any fun b => b.2.1 == nm

/-- **Known findings** (the current code leaves the invariant false; see known_findings.json):
    F1 `add_block` (or `+`) replaces a block that has connections;
    F2 `add_rocktype` (or `+`, `embed`) replaces a rock type that blocks still use;
    F3 `delete_rocktype` of a rock type that blocks still use. -/
inductive Finding where
  | f1 | f2 | f3
  deriving DecidableEq, Repr

/-- the finding an operation runs into in state `w`, if any -/
def finding (w : World) : Op → Option Finding
  | .addRocktype nm _ => if rockNameInUse w nm then some .f2 else none
  | .deleteRocktype nm => if rockNameInUse w nm then some .f3 else none
  | .addBlock nm rock _ _ =>
    if (dget w.rocktype rock).isSome && blockNameConnected w nm then some .f1 else none
  | .addGrid s left =>
    if !specOK s then none
    else if left then
      -- `grid + other`: other's objects replace the grid's
      if s.blocks.any (fun b => blockNameConnected w b.1) then some .f1
      else if s.rocks.any (fun r => rockNameInUse w r.1) then some .f2 else none
    else
      -- `other + grid`: the grid's objects replace other's
      if w.blocklist.any (fun b => s.cons.any fun c =>
            (s.blocks.getD c.1 default).1 == w.bname b || (s.blocks.getD c.2.1 default).1 == w.bname b) then some .f1
      else if w.rocktypelist.any (fun r => specRockUsed s (w.rname r)) then some .f2 else none
  | .embed s host sub _ =>
    if !specOK s || (dget w.block host).isNone || !(s.blocks.any fun b => b.1 == sub) then none
    else if s.rocks.any (fun r => rockNameInUse w r.1) then some .f2 else none
  | .embedStandalone s host sub _ _ =>
    if !specOK s || (dget w.block host).isNone || !(s.blocks.any fun b => b.1 == sub) then none
    else if s.rocks.any (fun r => rockNameInUse w r.1) then some .f2 else none
  | .readdBlock nm =>
    match outsideBlock w nm with
    | none => none
    | some b => if (w.bk b).conn.isEmpty && decide ((w.bk b).rock ∈ w.rocktypelist) && blockNameConnected w nm then some .f1 else none
  | .readdRocktype nm =>
    match outsideRock w nm with
    | none => none
    | some _ => if rockNameInUse w nm then some .f2 else none
  | _ => none

/-- preconditions of the three constructor-and-add calls (see `pre`) -/
def preBasic (w : World) : Op → Bool
  | .addRocktype nm _ => !rockNameInUse w nm
  | .addBlock nm rock _ _ => (dget w.rocktype rock).isSome && !blockNameConnected w nm
  | .addConnection n0 n1 _ => (dget w.block n0).isSome && (dget w.block n1).isSome && n0 != n1
  | _ => false

/-- every call that builds a second grid from its recipe is within its precondition -/
def preAllBasic : World → List Op → Bool
  | _, [] => true
  | w, op :: r => preBasic w op && preAllBasic (stepBasic w op).w r

/-- the rock type object `x` is used by a block of grid `g` -/
def rockUsedIn (w : World) (g : Grid) (x : Nat) : Bool := g.blocklist.any fun b => (w.bk b).rock == x

/-- for `g1 + g2`: no common block name, and a rock type of `g1` whose name also occurs in `g2` is
    used by no block of `g1` -/
def sumOK (w : World) (g1 g2 : Grid) : Bool :=
  g1.blocklist.all (fun x => g2.blocklist.all fun y => w.bname x != w.bname y) &&
  g1.rocktypelist.all (fun x => g2.rocktypelist.all fun y => w.rname x != w.rname y || !rockUsedIn w g1 x)

/-- **Pre.**  The argument conditions under which `inv_step` is proved.  Each clause that is not
    simply `true` is a place where the real code is run by the harness (corpus cases `misuse-…`,
    `F1-…`): either the call is an argument error that no edit script would make (foreign objects, a
    connection from a block to itself, a name list that is not a permutation, a name map that is
    not one-to-one — the last is excluded by the property text itself), or it is one of F1–F3. -/
def pre (w : World) : Op → Bool
  -- F2: the name is unregistered, or its rock type is used by no block
  | .addRocktype nm tag => preBasic w (.addRocktype nm tag)
  -- F3
  | .deleteRocktype nm => !rockNameInUse w nm
  | .renameRocktype _ _ => true
  | .cleanRocktypes => true
  | .sortRocktypes => true
  -- misuse: the block's rock type must be one of the grid's rocktype objects;
  -- F1: the name is new, or the block it replaces has no connections
  | .addBlock nm rock vol centre => preBasic w (.addBlock nm rock vol centre)
  | .deleteBlock _ => true
  | .demoteBlock _ => true
  -- misuse: both blocks must be the grid's current objects, and different
  | .addConnection n0 n1 p => preBasic w (.addConnection n0 n1 p)
  | .deleteConnection _ _ => true
  -- misuse: the block names must be a permutation of the grid's blocks, the connection names a
  -- permutation of its connections, each written in either orientation
  | .reorder bs cs =>
    (bs.isEmpty || (bs.map (dget w.block)).isPerm (w.blocklist.map some)) &&
    (cs.isEmpty || (cs.map (resolveCon w)).isPerm (w.connectionlist.map some))
  -- excluded by the property text: after renaming, the names must still be distinct (the map is
  -- one-to-one on the current names and hits no unrenamed block)
  | .renameBlocks m fix =>
    match effectiveMap m fix with
    | none => true
    | some m1 => decide (w.blocklist.map fun b => mapName m1 (w.bname b)).Nodup
  | .minc _ => true
  -- misuse: the second grid must be well formed (built within the preconditions of the calls that
  -- build it) and share no block name with this one (a connected common block: F1);
  -- F2: a common rock-type name must not be in use on the side that is replaced
  | .addGrid s left =>
    let (w1, other) := buildSpec w s
    specOK s && preAllBasic (w.withGrid ⟨[], [], [], [], [], []⟩) (specOps s) &&
    (if left then sumOK w1 w1.grid other else sumOK w1 other w1.grid)
  -- misuse: host must be a block of this grid and the other end a block of the sub-grid
  | .embed s host sub _ =>
    let (w1, other) := buildSpec w s
    specOK s && preAllBasic (w.withGrid ⟨[], [], [], [], [], []⟩) (specOps s) &&
    (dget w.block host).isSome && (dget other.block sub).isSome &&
    w1.rocktypelist.all (fun x => other.rocktypelist.all fun y => w1.rname x != w1.rname y || !rockUsedIn w1 w1.grid x)
  -- as for embed: the standalone host block must carry the name of a block of this grid
  | .embedStandalone s host sub _ _ =>
    let (w1, other) := buildSpec w s
    specOK s && preAllBasic (w.withGrid ⟨[], [], [], [], [], []⟩) (specOps s) &&
    (dget w.block host).isSome && (dget other.block sub).isSome &&
    w1.rocktypelist.all (fun x => other.rocktypelist.all fun y => w1.rname x != w1.rname y || !rockUsedIn w1 w1.grid x)
  -- misuse: a block must carry one of the grid's rocktype objects (not merely one of the same name)
  | .addBlockFresh _ _ _ _ => false
  -- misuse: the object handed back must carry no connection record of its own and a registered rock
  -- type (a block that was deleted from this grid does); F1 as for add_block
  | .readdBlock nm =>
    match outsideBlock w nm with
    | none => true
    | some b => (w.bk b).conn.isEmpty && decide ((w.bk b).rock ∈ w.rocktypelist) && !blockNameConnected w nm
  -- F2 as for add_rocktype
  | .readdRocktype nm =>
    match outsideRock w nm with
    | none => true
    | some _ => !rockNameInUse w nm
  -- misuse: both blocks of the connection must (still) be blocks of the grid
  | .readdConnection n0 n1 =>
    match outsideCon w (n0, n1) with
    | none => true
    | some c => decide ((w.cn c).b0 ∈ w.blocklist) && decide ((w.cn c).b1 ∈ w.blocklist) && (w.cn c).b0 != (w.cn c).b1
  | .againBlock _ => true

/-- what the driver reports about an operation in the state it is applied to -/
def preClass (w : World) (op : Op) : String :=
  if pre w op then "ok"
  else match finding w op with
    | some .f1 => "F1"
    | some .f2 => "F2"
    | some .f3 => "F3"
    | none => "misuse"

end Model.Grid
