/-
  The mesh-editing operations of `mulgrid` that build on the primitive edits of `Model/Geo.lean`,
  transcribed as written (C10, C11):

    split_column, subdivide_column, triangulate_column, decompose_column(s),
    missing_connections, extra_connections, orphans, delete_orphans, bad_columns, bad_layers,
    check(fix), reduce, connection_with_nodes, nodes_in_columns, column_boundary_nodes,
    column.bisection_sides, column.interior_angles (straight-node test), refine

  Set iteration order (a parameter of the model): every Python `set` is iterated in insertion
  order.  Generated names therefore differ from a real run by a renaming, never in number.

  Square roots: `bisection_sides(None)` sorts side lengths; the model sorts squared lengths
  (same order).  `numpy.argsort` on 3 or 4 values is an insertion sort, i.e. stable.
  Angles: `decompose_column` calls a node straight when its interior angle exceeds π - 1e-3; the
  model calls it straight when the boundary does not turn left there (turn ≤ 0, exact) — the two
  agree unless a node turns left by less than 1e-3 rad (`nearlyStraight`, reported as unstable).
-/
import PyTough.Model.Geo
import PyTough.Model.Refine
namespace Model.Geo
open Py Gen.RefineTables

namespace Geo

def lowercase : Str := "abcdefghijklmnopqrstuvwxyz".toList

/-- `new_node_name(istart, justfn, chars, spaces)` with `justfn` chosen by `right_justified_names` -/
def newNodeName (g : Geo) (istart : Nat) : Except Exc (Name × Nat) :=
  Names.newNodeName g.convention g.nodeD.keys istart (!g.rightJustifiedNames) lowercase true

def newColumnName (g : Geo) (istart : Nat) : Except Exc (Name × Nat) :=
  Names.newColumnName g.convention g.columnD.keys istart (!g.rightJustifiedNames) lowercase true

/-! ### `split_column` -/

/-- `split_column(colname, nodename)` up to (excluding) the final `setup_*` calls;
    `none` = the method returns `False` without touching the geometry -/
def splitCore (g : Geo) (colname nodename : Name) : Except Exc (Option Geo) :=
  match g.columnD.get? colname with
  | none => .ok none
  | some ci =>
    let col := g.col ci
    if col.nodes.length ≠ 4 then .ok none
    else
      match col.nodes.findIdx? (fun n => (g.node n).name = nodename) with
      | none => .ok none                             -- `except ValueError: return False`
      | some i0 => do
        let nodeAt (k : Nat) : Nat := col.nodes.getD ((i0 + k) % 4) 0
        let (colname2, _) ← g.newColumnName 0
        let c2rec ← (match g.mkColumn colname2 (splitNew.map nodeAt) none col.surface with
                     | some c => pure c
                     | none => throw Exc.zeroDivision)
        let (g, c2) := g.allocColumn c2rec
        -- switch connections and neighbours from col to col2 as needed
        let n3 := nodeAt splitDeleted
        let n3cols := col.nbrs.filter fun c => (g.col c).nodes.contains n3
        let (g, swapcons, swapnbrs) := col.cons.foldl (fun (st : Geo × List Nat × List Nat) k =>
          let (g, sc, sn) := st
          let cn := g.con k
          if n3cols.contains cn.c0 then (g.updCon k fun x => { x with c1 := c2 }, sc ++ [k], sn ++ [cn.c0])
          else if n3cols.contains cn.c1 then (g.updCon k fun x => { x with c0 := c2 }, sc ++ [k], sn ++ [cn.c1])
          else (g, sc, sn)) (g, [], [])
        let g ← swapcons.foldlM (fun (g : Geo) k => do
          let s ← setRemove (g.col ci).cons k
          let g := g.updCol ci fun c => { c with cons := s }
          pure (g.updCol c2 fun c => { c with cons := setAdd c.cons k })) g
        let g ← swapnbrs.foldlM (fun (g : Geo) c => do
          let s ← setRemove (g.col ci).nbrs c
          let g := g.updCol ci fun x => { x with nbrs := s }
          let s ← setRemove (g.col c).nbrs ci
          let g := g.updCol c fun x => { x with nbrs := s }
          let g := g.updCol c2 fun x => { x with nbrs := setAdd x.nbrs c }
          pure (g.updCol c fun x => { x with nbrs := setAdd x.nbrs c2 })) g
        -- del col.node[i[3]]; n3.column.remove(col); col.get_area(); col.centre = col.centroid
        let nodes' := col.nodes.eraseIdx ((i0 + splitDeleted) % 4)
        let s ← setRemove (g.node n3).cols ci
        let g := g.updNode n3 fun nd => { nd with cols := s }
        let ctr ← (match polygonCentroid (g.polygon nodes') with
                   | some c => pure c
                   | none => throw Exc.zeroDivision)
        let g := g.updCol ci fun c => { c with nodes := nodes', centre := ctr, area := polygonArea (g.polygon nodes') }
        let g := g.updCol c2 fun c => { c with numLayers := col.numLayers }
        let g := g.rekeyConnections
        let g := g.registerColumn c2
        pure (some (g.addConnection ci c2))

/-- `split_column(colname, nodename)`; the Boolean is the method's return value -/
def splitColumn (g : Geo) (colname nodename : Name) : Except Exc (Geo × Bool) := do
  match ← g.splitCore colname nodename with
  | none => pure (g, false)
  | some g1 => do
    let g2 ← g1.setupNames
    pure (g2, true)

/-! ### `subdivide_column`, `triangulate_column`, `decompose_column(s)` -/

/-- `subdivide_column(column_name, i0, colnodelist)` with the sub-columns already resolved against the
    parent (`Refine.subdivide`): corner `i` is `col.node[i]`, `centre` the new centre node -/
def subdivideColumn (g : Geo) (colname : Name) (polys : List Poly) : Except Exc (Geo × List Name) :=
  match g.columnD.get? colname with
  | none => .error .keyError
  | some ci => do
    let col := g.col ci
    let needCentre := polys.any fun p => p.contains Vert.centre
    let (g, centre) ← (if needCentre then do
        let (nm, _) ← g.newNodeName 0
        let g := g.addNode nm col.centre
        pure (g, g.nodelist.getLast?)
      else pure (g, none))
    let (g, _, names) ← polys.foldlM (fun (st : Geo × Nat × List Name) p => do
      let (g, colnumber, names) := st
      let nodes ← p.mapM fun
        | .corner i => (match col.nodes[i]? with | some n => pure n | none => throw Exc.indexError)
        | .centre => (match centre with | some n => pure n | none => throw Exc.generic)
        | .mid _ _ => throw Exc.generic
      let (nm, colnumber) ← g.newColumnName colnumber
      let g ← g.addColumn nm nodes none col.surface
      -- self.columnlist[-1].num_layers = col.num_layers
      let g := match g.columnlist.getLast? with
        | some l => g.updCol l fun c => { c with numLayers := col.numLayers }
        | none => g
      pure (g, colnumber, names ++ [nm])) (g, 0, [])
    let g ← g.deleteColumn colname
    pure (g, names)

def dot (a b : Pt) : Rat := a.1 * b.1 + a.2 * b.2

/-- local indices of the nodes where the (counter-clockwise) boundary does not turn left:
    interior angle ≥ π, which is what `angle > np.pi - tol` selects up to `tol` -/
def straightNodes (poly : List Pt) : List Nat :=
  let n := poly.length
  (List.range n).filter fun i =>
    let p := poly.getD i (0, 0)
    let u := Pt.sub p (poly.getD ((i + n - 1) % n) (0, 0))
    let v := Pt.sub (poly.getD ((i + 1) % n) (0, 0)) p
    decide (Pt.cross u v ≤ 0)

/-- some node turns left by less than about 1e-2 rad without being exactly straight: the real code's
    classification (threshold 1e-3 rad, computed with `asin`) is then not reproduced reliably -/
def nearlyStraight (poly : List Pt) : Bool :=
  let n := poly.length
  (List.range n).any fun i =>
    let p := poly.getD i (0, 0)
    let u := Pt.sub p (poly.getD ((i + n - 1) % n) (0, 0))
    let v := Pt.sub (poly.getD ((i + 1) % n) (0, 0)) p
    let cr := Pt.cross u v
    decide (cr > 0) && decide (cr * 100 < dot u v)

/-- `decompose_column(column_name)` -/
def decomposeColumn (g : Geo) (colname : Name) : Except Exc (Geo × List Name) :=
  match g.columnD.get? colname with
  | none => .error .keyError
  | some ci =>
    let col := g.col ci
    match Refine.decompose col.nodes.length (straightNodes (g.polygon col.nodes)) with
    | none => .ok (g, [colname])
    | some (.error e) => .error e
    | some (.ok polys) => g.subdivideColumn colname polys

/-- `triangulate_column(column_name)` -/
def triangulateColumn (g : Geo) (colname : Name) : Except Exc (Geo × List Name) :=
  match g.columnD.get? colname with
  | none => .error .keyError
  | some ci => g.subdivideColumn colname (Refine.triangulate (g.col ci).nodes.length)

/-- `missing_connections`: pairs of columns around a common node that are against each other and
    not connected, as (min name, max name), in order of discovery; then `self.column[name]` for each -/
def missingConnections (g : Geo) : Except Exc (List (Nat × Nat)) := do
  let pairs : List (Name × Name) := g.nodelist.foldl (fun acc n =>
    let nodecols := (g.node n).cols
    let rec go (l : List Nat) (acc : List (Name × Name)) : List (Name × Name) :=
      match l with
      | [] => acc
      | ci :: rest =>
        let acc := rest.foldl (fun acc cj =>
          if g.isAgainst ci cj && !g.connects ci cj then
            let a := (g.col ci).name
            let b := (g.col cj).name
            let m := if a ≤ b then (a, b) else (b, a)
            if acc.contains m then acc else acc ++ [m]
          else acc) acc
        go rest acc
    go nodecols acc) []
  pairs.mapM fun (a, b) =>
    match g.columnD.get? a, g.columnD.get? b with
    | some x, some y => pure (x, y)
    | _, _ => throw Exc.keyError

/-- `extra_connections`: name pairs of connections whose columns are not against each other -/
def extraConnections (g : Geo) : List (Name × Name) :=
  ((g.connlist.filter fun k => !g.isAgainst (g.con k).c0 (g.con k).c1).map fun k =>
    ((g.col (g.con k).c0).name, (g.col (g.con k).c1).name)).eraseDups

/-- `orphans`: nodes with an empty `column` set -/
def orphans (g : Geo) : List Nat := g.nodelist.filter fun n => (g.node n).cols.isEmpty

def deleteOrphans (g : Geo) : Except Exc Geo :=
  g.orphans.foldlM (fun (g : Geo) n => g.deleteNode (g.node n).name) g

def addMissingConnections (g : Geo) : Except Exc Geo := do
  let m ← g.missingConnections
  pure (m.foldl (fun g p => g.addConnection p.1 p.2) g)

/-- `decompose_columns(columns)`; `columns = []` iterates over the *live* `columnlist` by index, as a
    Python `for` over a list that is being modified does -/
def decomposeColumns (g : Geo) (cols : List Nat) : Except Exc Geo := do
  let g ← (if cols.isEmpty then
      let rec walk (fuel : Nat) (i : Nat) (g : Geo) : Except Exc Geo :=
        match fuel with
        | 0 => .error .generic
        | fuel + 1 =>
          match g.columnlist[i]? with
          | none => .ok g
          | some c => do
            let (g, _) ← g.decomposeColumn (g.col c).name
            walk fuel (i + 1) g
      walk (4 * g.columnlist.length + 16) 0 g
    else
      cols.foldlM (fun (g : Geo) c => do
        let (g, _) ← g.decomposeColumn (g.col c).name
        pure g) g)
  let g ← g.addMissingConnections
  g.setupNames

/-! ### `check(fix=True)` and `reduce` -/

def badColumns (g : Geo) : List Nat :=
  g.columnlist.filter fun c => !inPolygon (g.col c).centre (g.polygon (g.col c).nodes)

def badLayers (g : Geo) : List Nat :=
  (g.layerlist.drop 1).filter fun l => !(decide ((g.lay l).bottom ≤ (g.lay l).centre) && decide ((g.lay l).centre ≤ (g.lay l).top))

/-- `check(fix)`: the Boolean is the return value (no error found) -/
def check (g : Geo) (fix : Bool) : Except Exc (Geo × Bool) := do
  let mc ← g.missingConnections
  let g := if fix then mc.foldl (fun g p => g.addConnection p.1 p.2) g else g
  let ec := g.extraConnections
  let g ← (if fix then ec.foldlM (fun (g : Geo) nm => g.deleteConnection nm) g else pure g)
  let orph := g.orphans
  let g ← (if fix then g.deleteOrphans else pure g)
  let bc := g.badColumns
  let g := if fix then bc.foldl (fun g c => g.updCol c fun cl =>
      let k : Rat := cl.nodes.length
      { cl with centre := Pt.smul (1 / k) ((g.polygon cl.nodes).foldr Pt.add (0, 0)) }) g else g
  let bl := g.badLayers
  let g := if fix then bl.foldl (fun g l => g.updLay l fun la =>
      let b := if la.bottom ≤ la.top then la.bottom else la.top
      let t := if b ≤ la.top then la.top else b
      { la with bottom := b, top := t, centre := (1/2) * (b + t) }) g else g
  pure (g, mc.isEmpty && ec.isEmpty && orph.isEmpty && bc.isEmpty && bl.isEmpty)

/-- `reduce(columns)` -/
def reduce (g : Geo) (cols : List Nat) : Except Exc Geo := do
  let del := g.columnlist.filter fun c => !cols.contains c
  let names := del.map fun c => (g.col c).name
  let g ← names.foldlM (fun (g : Geo) nm => g.deleteColumn nm) g
  let (g, _) ← g.check true
  g.setupNames

/-! ### boundary nodes -/

/-- `connection_with_nodes([n1, n2])`: the first connection whose node pair contains both -/
def connectionWithNodes (g : Geo) (n1 n2 : Nat) : Option Nat :=
  g.connlist.find? fun k =>
    match (g.con k).nodes with
    | some (a, b) => (n1 = a || n1 = b) && (n2 = a || n2 = b)
    | none => false

/-- `nodes_in_columns(columns)` (a set, in insertion order) -/
def nodesInColumns (g : Geo) (cols : List Nat) : List Nat :=
  (cols.flatMap fun c => (g.col c).nodes).eraseDups

structure BdyState where
  blackCons : List Nat := []
  blackNodes : List Nat := []
  bdy : List Nat := []

/-- the nested `next_bdy_node(n)` of `column_boundary_nodes` -/
def nextBdyNode (g : Geo) (cols : List Nat) (st : BdyState) (n : Nat) : Option Nat :=
  let cands := (g.node n).cols.filter fun c => cols.contains c && (g.col c).nodes.length > 2
  cands.findSome? fun c =>
    let nodes := (g.col c).nodes
    let i := nodes.idxOf n
    let n2 := nodes.getD ((i + 1) % nodes.length) 0
    if st.blackNodes.contains n2 then none
    else
      match g.connectionWithNodes n n2 with
      | none => some n2
      | some k =>
        let cn := g.con k
        if (g.col cn.c0).nodes.length ≤ 2 || (g.col cn.c1).nodes.length ≤ 2 then some n2
        else if !st.blackCons.contains k && !(cols.contains cn.c0 && cols.contains cn.c1) then some n2
        else none

/-- `column_boundary_nodes(columns)`; `generic` = 'Could not detect column boundary nodes.' -/
def columnBoundaryNodes (g : Geo) (cols : List Nat) : Except Exc (List Nat) :=
  let nodes := g.nodesInColumns cols
  match nodes with
  | [] => .ok []        -- bounds_of_points([]) raises ValueError in Python (min of empty): not reachable from refine
  | n0 :: _ =>
    let xmin := nodes.foldl (fun m n => if (g.node n).pos.1 < m then (g.node n).pos.1 else m) (g.node n0).pos.1
    let left := nodes.filter fun n => (g.node n).pos.1 = xmin
    match left.find? (fun n => (g.nextBdyNode cols {} n).isSome) with
    | none => .ok []
    | some start =>
      let rec loop (fuel : Nat) (st : BdyState) (node : Nat) : Except Exc (List Nat) :=
        match fuel with
        | 0 => .error .generic
        | fuel + 1 =>
          let st := { st with bdy := st.bdy ++ [node] }
          match g.nextBdyNode cols st node with
          | none => .error .generic
          | some nx =>
            let back := (g.node nx).name = (g.node start).name
            if back then .ok st.bdy
            else if st.bdy.contains nx then
              -- loop in boundary: unwind it, blacklisting what led into it
              let nodei := st.bdy.idxOf nx
              let loopcount := st.bdy.length - nodei - 1
              let st := (List.range loopcount).foldl (fun (st : BdyState) _ =>
                match st.bdy.reverse with
                | last :: prev :: _ =>
                  let st' := { st with bdy := st.bdy.dropLast }
                  match g.connectionWithNodes prev last with
                  | some k => { st' with blackCons := st'.blackCons ++ [k] }
                  | none => { st' with blackNodes := st'.blackNodes ++ [last] }
                | _ => st) st
              match st.bdy.getLast? with
              | none => .error .indexError
              | some nd => loop fuel { st with bdy := st.bdy.dropLast } nd
            else loop fuel st nx
      loop (4 * nodes.length + 64) {} start

def boundaryNodes (g : Geo) : Except Exc (List Nat) := g.columnBoundaryNodes g.columnlist

/-! ### `column.bisection_sides` -/

/-- indices sorted by key, stable (what `np.argsort` does on 3 or 4 values) -/
def argsortStable (keys : List Rat) : List Nat :=
  let idx := List.range keys.length
  idx.mergeSort fun a b => decide (keys.getD a 0 ≤ keys.getD b 0)

inductive Bisect where
  | no | longest | x | y
  deriving DecidableEq, Repr

/-- `col.bisection_sides(direction)`; `none` = the method returns `None` (more than 4 nodes) -/
def bisectionSides (poly : List Pt) (dir : Bisect) : Option (Nat × Nat) :=
  let nn := poly.length
  let p (i : Nat) : Pt := poly.getD (i % nn) (0, 0)
  if nn ≠ 3 ∧ nn ≠ 4 then none
  else
    match dir with
    | .no => none
    | .longest =>
      let l2 := (List.range nn).map fun i => let d := Pt.sub (p (i + 1)) (p i); dot d d
      let isort := argsortStable l2
      let imax := isort.getD (nn - 1) 0
      if nn = 3 then some (imax, isort.getD (nn - 2) 0) else some (imax, (imax + 2) % nn)
    | d =>
      let pick (v : Pt) : Rat := if d = .y then v.2 else v.1
      let sides := (List.range nn).map fun i => (i, if nn = 3 then (i + 1) % nn else (i + 2) % nn)
      let ds := sides.map fun (i, i2) =>
        let x1 := Pt.mid (p i) (p (i + 1))
        let x2 := Pt.mid (p i2) (p (i2 + 1))
        let v := pick (Pt.sub x2 x1)
        if v < 0 then -v else v
      let imax := argsortStable ds
      sides[imax.getD (nn - 1) 0]?

/-! ### decisions that the floating-point code may take differently

The model decides comparisons exactly.  The real code compares rounded doubles, so a comparison
between two numbers that are equal or nearly equal in exact arithmetic can go either way unless
both are computed exactly.  These predicates flag such cases; the harness discards them (counted
as `unstable`), it never reports them. -/

/-- a dyadic rational of moderate size: arithmetic on such coordinates is exact in double precision -/
def smallDyadic (r : Rat) : Bool :=
  r.den ≤ 1048576 && (r.den &&& (r.den - 1)) = 0 && r.num.natAbs < 1099511627776

def nearTie (a b : Rat) : Bool :=
  let d := if a ≤ b then b - a else a - b
  let m := if a ≤ b then b else a
  decide (d * 1000000000 ≤ m)

/-- the sort in `bisection_sides` has two keys that are (nearly) equal without being exactly computable -/
def bisectUnstable (poly : List Pt) (dir : Bisect) : Bool :=
  let nn := poly.length
  let p (i : Nat) : Pt := poly.getD (i % nn) (0, 0)
  let exact := poly.all fun q => smallDyadic q.1 && smallDyadic q.2
  let keys : List Rat :=
    match dir with
    | .no => []
    | .longest => (List.range nn).map fun i => let d := Pt.sub (p (i + 1)) (p i); dot d d
    | d =>
      (List.range nn).map fun i =>
        let i2 := if nn = 3 then (i + 1) % nn else (i + 2) % nn
        let v := Pt.sub (Pt.mid (p i2) (p (i2 + 1))) (Pt.mid (p i) (p (i + 1)))
        let w := if d = .y then v.2 else v.1
        if w < 0 then -w else w
  (List.range keys.length).any fun i => (List.range keys.length).any fun j =>
    i < j && nearTie (keys.getD i 0) (keys.getD j 0) && !(exact && keys.getD i 0 = keys.getD j 0)

def refineUnstable (g : Geo) (cols : List Nat) (bisect : Bisect) : Bool :=
  let cols := if cols.isEmpty then g.columnlist else cols
  bisect ≠ .no && cols.any fun c => bisectUnstable (g.polygon (g.col c).nodes) bisect

def decomposeUnstable (g : Geo) (cols : List Nat) : Bool :=
  let cols := if cols.isEmpty then g.columnlist else cols
  cols.any fun c => (g.col c).nodes.length > 4 && nearlyStraight (g.polygon (g.col c).nodes)

/-! ### `refine` -/

abbrev SideNodes := List ((Name × Name) × Nat)

def sideKey (a b : Name) : Name × Name := if a ≤ b then (a, b) else (b, a)

def SideNodes.get? (s : SideNodes) (a b : Name) : Option Nat :=
  (s.find? fun p => p.1 = sideKey a b).map (·.2)

def SideNodes.set (s : SideNodes) (a b : Name) (v : Nat) : SideNodes :=
  let k := sideKey a b
  if s.any (fun p => p.1 = k) then s.map fun p => if p.1 = k then (k, v) else p else s ++ [(k, v)]

structure RefState where
  g : Geo
  side : SideNodes := []
  nodenumber : Nat := 0
  colnumber : Nat := 0

/-- the nested `create_mid_node(node1, node2, sidenodes, nodenumber)` -/
def createMidNode (st : RefState) (n1 n2 : Nat) : Except Exc RefState := do
  let g := st.g
  let midpos := Pt.mid (g.node n1).pos (g.node n2).pos
  let (nm, nodenumber) ← g.newNodeName st.nodenumber
  let g := g.addNode nm midpos
  match g.nodelist.getLast? with
  | none => throw Exc.indexError
  | some last =>
    pure { st with g, nodenumber, side := st.side.set (g.node n1).name (g.node n2).name last }

/-- what `refine` has worked out before it checks that it supports the selection: the mid-side nodes created so
    far (bisection of boundary sides), the connections to refine and `columns_plus_edge` -/
structure RefPlan where
  st : RefState
  conns : List Nat
  plusEdge : List Nat

def refinePlan (g : Geo) (cols : List Nat) (bisect : Bisect) (edge : List Nat) : Except Exc RefPlan := do
  let st : RefState := { g }
  -- connections to refine (a set, insertion order) and, when bisecting, boundary mid-side nodes
  let (st, conns) ← (if bisect ≠ .no then
      cols.foldlM (fun (acc : RefState × List Nat) c => do
        let poly := acc.1.g.polygon (acc.1.g.col c).nodes
        match bisectionSides poly bisect with
        | none => throw Exc.typeError                 -- `for i in None`
        | some (s1, s2) =>
          [s1, s2].foldlM (fun (acc : RefState × List Nat) i => do
            let (st, conns) := acc
            let nodes := (st.g.col c).nodes
            let n1 := nodes.getD i 0
            let n2 := nodes.getD ((i + 1) % nodes.length) 0
            match st.g.connectionWithNodes n1 n2 with
            | some k => pure (st, setAdd conns k)
            | none => do
              let st ← createMidNode st n1 n2
              pure (st, conns)) acc) (st, [])
    else
      pure (st, cols.foldl (fun conns c => (g.col c).cons.foldl setAdd conns) []))
  let plusEdge := (cols ++ edge).eraseDups
  let plusEdge := conns.foldl (fun s k => setAdd (setAdd s (st.g.con k).c0) (st.g.con k).c1) plusEdge
  pure { st, conns, plusEdge }

/-- `all([col.num_nodes in [3, 4] for col in columns_plus_edge])` -/
def RefPlan.supported (p : RefPlan) : Bool :=
  p.plusEdge.all fun c => (p.st.g.col c).nodes.length = 3 || (p.st.g.col c).nodes.length = 4

/-- the body of `refine` once the selection is known to be supported -/
def refineApply (p : RefPlan) (cols : List Nat) (bisect : Bisect) (edge : List Nat) : Except Exc Geo := do
  let st := p.st
  let plusEdge := p.plusEdge
  -- bisect edge columns if required
  let conns := edge.foldl (fun conns c =>
    (st.g.col c).cons.foldl (fun conns k =>
      if edge.contains (st.g.con k).c0 && edge.contains (st.g.con k).c1 then setAdd conns k else conns) conns) p.conns
  -- mid-side nodes at connections
  let st ← conns.foldlM (fun (st : RefState) k =>
    match (st.g.con k).nodes with
    | some (a, b) => createMidNode st a b
    | none => throw Exc.typeError) st
  -- mid-side nodes on grid boundaries in the refinement area
  let st ← (if bisect = .no then do
      let bdy ← st.g.boundaryNodes
      cols.foldlM (fun (st : RefState) c => do
        let nodes := (st.g.col c).nodes
        (cyc nodes).foldlM (fun (st : RefState) e =>
          if bdy.contains e.1 && bdy.contains e.2 &&
              (st.side.get? (st.g.node e.1).name (st.g.node e.2).name).isNone then
            createMidNode st e.1 e.2
          else pure st) st) st
    else pure st)
  -- refined columns (and centre nodes for quadrilaterals that need them)
  let (st, unrefined) ← plusEdge.foldlM (fun (acc : RefState × List Nat) c => do
    let (st, unrefined) := acc
    let col := st.g.col c
    let nn := col.nodes.length
    let nameOf (i : Nat) : Name := (st.g.node (col.nodes.getD (i % nn) 0)).name
    let sides := (List.range nn).filter fun i => (st.side.get? (nameOf i) (nameOf (i + 1))).isSome
    if sides.isEmpty then pure (st, unrefined ++ [c])      -- edge column not touched by the bisection
    else
    match Refine.transitionType nn sides with
    | none => throw Exc.typeError                   -- unpacking `None`
    | some (nref, istart, irange) => do
      let (st, centre) ← (if Refine.needsCentre nn nref irange then do
          let (nm, nodenumber) ← st.g.newNodeName st.nodenumber
          let g := st.g.addNode nm col.centre
          pure ({ st with g, nodenumber }, g.nodelist.getLast?)
        else pure (st, none))
      match Refine.tableEntry nn nref irange with
      | none => throw Exc.keyError
      | some entry =>
        let st ← entry.foldlM (fun (st : RefState) sub => do
          let (nm, colnumber) ← st.g.newColumnName st.colnumber
          let nodes ← sub.mapM fun
            | .corner v => pure (col.nodes.getD ((istart + v) % nn) 0)
            | .centre => (match centre with | some n => pure n | none => throw Exc.keyError)
            | .mid i j =>
              (match st.side.get? (nameOf (istart + i)) (nameOf (istart + j)) with
               | some n => pure n
               | none => throw Exc.keyError)
          let g ← st.g.addColumn nm nodes none col.surface
          let g := match g.columnlist.getLast? with
            | some l => g.updCol l fun cl => { cl with numLayers := col.numLayers }
            | none => g
          pure { st with g, colnumber }) st
        pure (st, unrefined)) (st, [])
  -- clean up
  let g ← (plusEdge.filter fun c => !unrefined.contains c).foldlM (fun (g : Geo) c => g.deleteColumn (g.col c).name) st.g
  let g ← g.addMissingConnections
  let g := g.identifyNeighbours
  g.setupNames

/-- `refine(columns, bisect, bisect_edge_columns)` (`columns = []` means all) -/
def refine (g : Geo) (cols : List Nat) (bisect : Bisect) (edge : List Nat) : Except Exc Geo := do
  let cols := if cols.isEmpty then g.columnlist else cols
  let p ← g.refinePlan cols bisect edge
  if p.supported then refineApply p cols bisect edge
  else pure p.st.g          -- 'Grid selection contains columns with more than 4 nodes: not supported.'

end Geo
end Model.Geo
